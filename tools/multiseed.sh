#!/bin/bash
# tools/multiseed.sh "1 2 3" [CHECK ...]  -- quick tier of every (or the named) check under several VERIF_SEEDs;
# evidence and replays go to scratch dirs so that the committed evidence is not disturbed.
seeds=${1:-"1 2 3"}; shift
checks=${@:-C02 C03 C04 C05 C06 C07 C08 C09 C10 C11 C12 C13 C14 C17 C20}
cd "$(dirname "$0")/.."
for s in $seeds; do
  for c in $checks; do
    out=$(VERIF_SEED=$s SIMFIX_EVIDENCE_DIR=/tmp/simfix-ms-evidence SIMFIX_REPLAY_DIR=/tmp/simfix-ms-replays bin/check $c --tier quick 2>&1 | grep -av condarc)
    rc=$?
    line=$(echo "$out" | grep -a "quick:" | tail -1 | cut -c1-160)
    if echo "$out" | grep -aq "^VIOLATION\|HARNESS-ERROR"; then
      echo "seed=$s $c ALARM"; echo "$out" | grep -a -A2 "^VIOLATION\|HARNESS-ERROR" | cut -c1-300 | head -12
    else
      echo "seed=$s $c ok  $line"
    fi
  done
done
