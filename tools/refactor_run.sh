#!/bin/bash
# tools/refactor_run.sh <patch.diff> [CHECK ...] -- all (or the named) quick checks against a scratch worktree of /repo HEAD
# with a behaviour-preserving refactoring applied: every check must stay silent.
patch=$1; shift
checks=${@:-C02 C03 C04 C05 C06 C07 C08 C09 C10 C11 C12 C13 C14 C17 C20}
wt=/tmp/vt-refactor-$$
git -C /repo worktree add --detach $wt HEAD -q 2>&1 | grep -av condarc
( cd $wt && git apply $patch ) || { echo "patch does not apply"; git -C /repo worktree remove --force $wt; exit 2; }
cd "$(dirname "$0")/.."
for c in $checks; do
  out=$(SIMFIX_REPO=$wt SIMFIX_EVIDENCE_DIR=/tmp/simfix-rf-evidence SIMFIX_REPLAY_DIR=/tmp/simfix-rf-replays bin/check $c --tier quick 2>&1 | grep -av condarc)
  if echo "$out" | grep -aq "^VIOLATION\|HARNESS-ERROR"; then
    echo "$c ALARM"; echo "$out" | grep -a -A2 "^VIOLATION\|HARNESS-ERROR" | cut -c1-300 | head -12
  else
    echo "$c silent  $(echo "$out" | grep -a 'quick:' | tail -1 | cut -c1-110)"
  fi
done
git -C /repo worktree remove --force $wt
