#!/usr/bin/env python3
"""Seeded-change bookkeeping.

  tools/seeded.py import <src_dir> <id> <property>   verify a sub-agent's change in a scratch worktree and
                                                      store it as /verif/seeded/<id>/
  tools/seeded.py run <id> [CHECK ...]               apply it to /repo, run the checks (default: its property's),
                                                      undo it, record the outcome in meta.json
  tools/seeded.py runall [--only-missed]             the same for every stored change
  tools/seeded.py table                              markdown table of which checks catch which change
"""
import json
import os
import shutil
import subprocess
import sys
import time

VERIF = os.path.dirname(os.path.dirname(os.path.abspath(__file__)))
SEEDED = os.path.join(VERIF, "seeded")
PY = "/venv/bin/python"


def sh(cmd, cwd=None, env=None, timeout=1800):
    e = dict(os.environ)
    if env:
        e.update(env)
    p = subprocess.run(cmd, shell=True, cwd=cwd, env=e, capture_output=True, text=True, timeout=timeout, errors="replace")
    out = "\n".join(l for l in (p.stdout + p.stderr).splitlines() if "condarc" not in l)
    return p.returncode, out


def do_import(src, sid, prop):
    dst = os.path.join(SEEDED, sid)
    os.makedirs(dst, exist_ok=True)
    for fn in ("patch.diff", "demo.py", "notes.md"):
        if os.path.exists(os.path.join(src, fn)):
            shutil.copy(os.path.join(src, fn), os.path.join(dst, fn))
    wt = f"/tmp/vt-{sid}"
    sh(f"git -C /repo worktree remove --force {wt}")
    rc, out = sh(f"git -C /repo worktree add --detach {wt} HEAD")
    assert rc == 0, out
    meta = dict(id=sid, property=prop, verified={}, checks={})
    try:
        rc, out = sh(f"PYTHONPATH={wt} {PY} {dst}/demo.py", cwd=wt, timeout=300)
        meta["verified"]["demo_on_clean_tree"] = dict(exit=rc, tail=out.strip().splitlines()[-1:] if out.strip() else [])
        rc, out = sh(f"git apply {dst}/patch.diff", cwd=wt)
        meta["verified"]["patch_applies"] = rc == 0
        if rc != 0:
            meta["verified"]["apply_error"] = out[-400:]
        else:
            rc, out = sh(f"{PY} -m pytest -q -p no:cacheprovider -x 2>&1 | tail -3", cwd=wt, timeout=900)
            meta["verified"]["test_suite_with_change"] = out.strip().splitlines()[-1:]
            rc, out = sh(f"PYTHONPATH={wt} {PY} {dst}/demo.py", cwd=wt, timeout=300)
            meta["verified"]["demo_with_change"] = dict(exit=rc, tail=out.strip().splitlines()[-1:] if out.strip() else [])
    finally:
        sh(f"git -C /repo worktree remove --force {wt}")
    v = meta["verified"]
    ok = (v.get("patch_applies") and v["demo_on_clean_tree"]["exit"] == 0 and v["demo_with_change"]["exit"] != 0
          and any("192 passed" in s for s in v.get("test_suite_with_change", [])))
    meta["confirmed"] = bool(ok)
    notes = os.path.join(dst, "notes.md")
    meta["needs_to_manifest"] = open(notes).read() if os.path.exists(notes) else ""
    meta["what_was_run"] = [
        f"git worktree add /tmp/vt-{sid}; demo.py on the clean tree; git apply patch.diff; pytest (192 tests); demo.py with the change",
    ]
    json.dump(meta, open(os.path.join(dst, "meta.json"), "w"), indent=1)
    print(sid, "confirmed" if ok else "NOT CONFIRMED", json.dumps(v)[:600])
    return ok


def do_run(sid, check_ids=None, tier="quick"):
    """Runs the checks against a scratch worktree of /repo HEAD with the change applied (SIMFIX_REPO points the
    checks at it), so that /repo itself -- which background soaks read -- is never touched.  Equivalent to
    `git -C /repo apply patch.diff; bin/check ...; git -C /repo checkout -- .`."""
    dst = os.path.join(SEEDED, sid)
    meta = json.load(open(os.path.join(dst, "meta.json")))
    check_ids = check_ids or [meta["property"]]
    wt = f"/tmp/vt-run-{sid}"
    sh(f"git -C /repo worktree remove --force {wt}")
    rc, out = sh(f"git -C /repo worktree add --detach {wt} HEAD")
    assert rc == 0, out
    try:
        rc, out = sh(f"git apply {dst}/patch.diff", cwd=wt)
        if rc != 0:
            print(sid, "patch does not apply to /repo HEAD:", out[-300:])
            meta["checks"]["_apply"] = "failed on current /repo HEAD"
            json.dump(meta, open(os.path.join(dst, "meta.json"), "w"), indent=1)
            return
        meta["checks"].pop("_apply", None)
        head = sh("git -C /repo log --format=%h -1")[1].strip()
        for cid in check_ids:
            t0 = time.time()
            rc, out = sh(f"bin/check {cid} --tier {tier}", cwd=VERIF,
                         env={"SIMFIX_REPO": wt, "SIMFIX_EVIDENCE_DIR": "/tmp/simfix-mut-evidence",
                              "SIMFIX_REPLAY_DIR": "/tmp/simfix-mut-replays"}, timeout=3600)
            viol = [l for l in out.splitlines() if l.startswith("VIOLATION")]
            sigs = [l.strip() for l in out.splitlines() if l.strip().startswith(("signature:", "regression:"))]
            meta["checks"][cid] = dict(tier=tier, exit=rc, detected=rc == 1 and bool(viol), signatures=sigs[:6],
                                       wall_s=round(time.time() - t0, 1), repo_head=head)
            print(sid, cid, "exit", rc, "DETECTED" if rc == 1 and viol else ("HARNESS-ERROR" if rc == 2 else "missed"),
                  sigs[:3])
            if rc == 2:
                print(out[-1500:])
    finally:
        sh(f"git -C /repo worktree remove --force {wt}")
    meta["what_was_run"] = [w for w in meta.get("what_was_run", []) if "bin/check" not in w] + [
        "scratch worktree of /repo HEAD + git apply patch.diff; SIMFIX_REPO=<worktree> bin/check <ID> --tier quick for the "
        "checks listed under 'checks' (same as applying the patch to /repo and undoing it); worktree removed"]
    json.dump(meta, open(os.path.join(dst, "meta.json"), "w"), indent=1)


def table():
    rows = []
    for sid in sorted(os.listdir(SEEDED)):
        mp = os.path.join(SEEDED, sid, "meta.json")
        if not os.path.exists(mp):
            continue
        m = json.load(open(mp))
        det = [c for c, r in m.get("checks", {}).items() if isinstance(r, dict) and r.get("detected")]
        missed = [c for c, r in m.get("checks", {}).items() if isinstance(r, dict) and not r.get("detected")]
        first = (m.get("needs_to_manifest") or "").strip().splitlines()
        rows.append(f"| {sid} | {m['property']} | {', '.join(det) or '-'} | {', '.join(missed) or '-'} |")
    print("| change | property | detected by (quick) | run but silent |\n|---|---|---|---|")
    print("\n".join(rows))


def main():
    a = sys.argv[1:]
    if a[0] == "import":
        sys.exit(0 if do_import(a[1], a[2], a[3]) else 1)
    elif a[0] == "run":
        do_run(a[1], a[2:] or None)
    elif a[0] == "runall":
        for sid in sorted(os.listdir(SEEDED)):
            if os.path.exists(os.path.join(SEEDED, sid, "meta.json")):
                do_run(sid)
    elif a[0] == "table":
        table()


main()
