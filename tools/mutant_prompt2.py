"""Round-2 prompt: like mutant_prompt.py but lists mechanisms already covered (to be avoided)."""
import json, os, sys
pid = sys.argv[1]
tag = sys.argv[2] if len(sys.argv) > 2 else "r2"
wt = f"/tmp/wt-{pid}-{tag}"
prop = None
for l in open("/verif/properties.jsonl"):
    d = json.loads(l)
    if d["id"] == pid:
        prop = f"{d['id']}: {d['title']}\n\n{d['statement']}\n\nQuantified over: {d['quantifier']['text']}\n\nRelevant files: {', '.join(d['anchors']['files'])}\n"
known = []
sd = "/verif/seeded"
for sid in sorted(os.listdir(sd)):
    if sid.startswith(pid + "-"):
        n = os.path.join(sd, sid, "notes.md")
        if os.path.exists(n):
            txt = " ".join(open(n).read().split())
            known.append(f"- {txt[:420]}")
base = open("/verif/tools/mutant_prompt.py").read()
ns = {}
import io, contextlib
buf = io.StringIO()
sys.argv = ["x", pid]
open(f"/tmp/prop-{pid}.txt", "w").write(prop)
with contextlib.redirect_stdout(buf):
    exec(compile(base, "mutant_prompt.py", "exec"), {"__name__": "__main__"})
text = buf.getvalue().replace(f"/tmp/wt-{pid}", wt)
extra = ("\n\nIMPORTANT - mechanisms that are ALREADY covered by earlier mutations and must NOT be repeated (nor close variants of them); "
         "find different code sites and different failure scenarios, preferably in a different function or file than these:\n" + "\n".join(known) + "\n")
text = text.replace("\nFor each mutation i in (1, 2) deliver", extra + "\nFor each mutation i in (1, 2) deliver")
print(text)
