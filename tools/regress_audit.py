"""tools/regress_audit.py -- replays every regress/*.json named in known_findings.txt against the tree just BEFORE its
fix commit (scratch worktree of /repo, removed afterwards) and expects the violation there: a replay that is silent on
both trees has gone stale (the harness changed under it) and protects nothing.  A replay may legitimately need an older
base than <commit>^ when later fixes mask it (C14-send-after-watchdog-disconnect-during-resend: reproduces on a3b78a7)."""
import re, subprocess, os, json
lines=[l for l in open('/verif/known_findings.txt') if l.startswith('fixed:')]
res=[]
for l in lines:
    m=re.search(r'property=(\S+) commit=(\S+) regress=(\S+)', l)
    if not m: 
        print("no-match:", l[:80]); continue
    prop, commit, reg = m.groups()
    for regf in reg.split(','):
        path=os.path.join('/verif',regf)
        if not os.path.exists(path): print("MISSING", regf); continue
        wt='/tmp/wt-audit'
        subprocess.run(f"git -C /repo worktree remove --force {wt}",shell=True,capture_output=True)
        r=subprocess.run(f"git -C /repo worktree add -q --detach {wt} {commit}^",shell=True,capture_output=True,text=True)
        if r.returncode: print("worktree fail",commit,r.stderr[:100]); continue
        d=json.load(open(path)); chk=d.get('property',prop)
        p=subprocess.run(f"SIMFIX_REPO={wt} timeout 300 /verif/bin/check {chk} --replay {path}",shell=True,capture_output=True,text=True)
        out=p.stdout+p.stderr
        ok='VIOLATION' in out
        print(("ok   " if ok else "STALE"), chk, commit, regf, "" if ok else out.strip().splitlines()[-1][:120])
subprocess.run("git -C /repo worktree remove --force /tmp/wt-audit",shell=True,capture_output=True)
