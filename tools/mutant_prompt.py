import sys
pid=sys.argv[1]
prop=open(f"/tmp/prop-{pid}.txt").read()
print(f"""You are helping to test how good a verification suite is at catching subtle regressions in a Python library, `asyncfix` (a pure-Python asyncio FIX 4.4 protocol library). You are working ONLY inside the scratch git worktree /tmp/wt-{pid} (a checkout of the library). Do NOT look at, read or list /verif or /repo — work only in /tmp/wt-{pid}. Use `/venv/bin/python` as the interpreter; from inside the worktree, `cd /tmp/wt-{pid} && /venv/bin/python -m pytest -q -p no:cacheprovider` runs the library's own test suite (192 tests, all passing now) against the worktree's copy of the code. For standalone scripts use `PYTHONPATH=/tmp/wt-{pid} /venv/bin/python script.py`. There is no network.

Here is a semantic property that the library is supposed to satisfy:

-----
{prop}
-----

Your task: produce TWO different, independent changes (mutations) to the library source code under /tmp/wt-{pid}/asyncfix/ (not the tests) such that each one:
  1. BREAKS the property above (really breaks it -- the library then violates the statement for some input / schedule / fault / history),
  2. still compiles/imports and still passes the ENTIRE existing test suite unchanged (all 192 tests),
  3. is REALISTIC: something a developer could plausibly introduce in a refactor, an optimisation, or a well-meant 'fix' -- not sabotage with magic constants,
  4. is SUBTLE: it needs something specific to manifest -- a particular interleaving of tasks, a crash/fault/disconnect at a particular point, a multi-step sequence of operations, an unusual input, or two cooperating code sites that each look fine alone. Changes that ordinary use would expose at once (e.g. every message fails) are NOT wanted.
The two mutations should break the property through DIFFERENT mechanisms (different code sites / different failure scenarios).

For each mutation i in (1, 2) deliver, in directory /tmp/wt-{pid}/mutants/m<i>/:
  - patch.diff : unified diff against the worktree HEAD (produce with `git -C /tmp/wt-{pid} diff -- asyncfix > mutants/m<i>/patch.diff` while only that mutation is applied; then `git -C /tmp/wt-{pid} checkout -- asyncfix` before working on the next one). The patch must apply with `git apply` to a clean checkout.
  - demo.py : a small standalone program (may use asyncio, in-memory fakes for streams, etc.; may use the library's private attributes if needed) that exits 0 and prints PASS on the unmodified library and exits 1 and prints FAIL (with a short explanation) when the mutation is applied. Run it as `PYTHONPATH=/tmp/wt-{pid} /venv/bin/python mutants/m<i>/demo.py`. It must be deterministic and finish in under 30 seconds, without real network sockets if you can avoid them (loopback sockets on 127.0.0.1 are acceptable if really needed).
  - notes.md : 5-15 lines: what the mutation changes, why it breaks the property, and exactly what is needed for it to manifest (which interleaving / fault / input / sequence).

Before finishing, verify yourself for each mutation: (a) with the patch applied the full test suite passes (192 passed); (b) with the patch applied demo.py FAILs; (c) on the clean worktree demo.py PASSes. Leave the worktree clean at the end (`git -C /tmp/wt-{pid} checkout -- asyncfix`; the untracked mutants/ directory stays). 

In your final answer, list for each mutation: one-line description, the manifestation requirement, and confirmation of (a)(b)(c) with the actual command outputs' last lines.""")
