#!/venv/bin/python
"""Regenerates /verif/MANIFEST.json from the check registry (run after adding a check)."""
import json
import os
import sys

VERIF = os.path.dirname(os.path.dirname(os.path.abspath(__file__)))
sys.path[0:0] = ["/repo", VERIF]

from simfix import checks  # noqa: E402

TECH = "deterministic simulation with fault injection"

LEVEL_TEXT = {
    "C02": ("exploration", "seeded search over simulated sessions (pair + scripted-peer families, payload charsets incl. non-ASCII); every byte string handed to a transport and every Codec.encode result is re-parsed by an independent byte-level framer; evidence, not proof"),
    "C03": ("exploration", "seeded search over chunkings of a peer's byte stream (systematic single cuts, 1-byte reads, random multi-cuts, garbage between frames) delivered through real asyncio streams to the real reader task; differential against whole-frame delivery; evidence, not proof"),
    "C04": ("exploration", "seeded search over inbound histories from an arbitrary scripted counterparty (type x number x PossDup x start state, hooks may suspend) judged frame by frame against a 15-line reference receiver; evidence, not proof"),
    "C05": ("exploration", "seeded search over send attempts of every type in every reachable state interleaved with peer traffic that makes the library send, from seeded starting counters, under back-pressure and chunking; wire, journal and counters compared after every completed send; evidence, not proof"),
    "C06": ("exploration", "seeded search over outbound journal shapes x ResendRequest ranges x request timing (ACTIVE / awaiting, should_replay suspension, back-pressure); reply chain and side effects judged per request; evidence, not proof"),
    "C07": ("exploration", "seeded random search over schedules and fault sequences of two real endpoints in a deterministic simulator (breaks, back-pressure, hook suspension, connect refusals, virtual-time reconnect); evidence, not proof"),
    "C08": ("fault_enumeration", "histories of journal operations are sampled; for each history every SQL statement/commit boundary is a crash point (file image reopened by a fresh Journaler) and compared with a reference model; all crash points of each sampled history are enumerated"),
    "C09": ("fault_enumeration", "pair histories are sampled; for each history the seam crossings of one endpoint (transport write, drain, every journal statement/commit) are numbered in a fault-free run and the run is repeated with a kill + restart at each (all, or a seeded sample above a cap), plus graceful restarts at quiescent points"),
    "C10": ("exploration", "seeded search over byte-level corruptions and grammar-aware malformed frames injected into a live peer stream, each followed by valid traffic; public Codec.decode wrapped for the run; evidence, not proof"),
    "C11": ("exploration", "seeded search over role x state prefix x stimulus (frame class x integrity defect, or local send) x follow-up input, with heartbeat/reader/application tasks racing inside disconnect(); evidence, not proof"),
    "C12": ("exploration", "seeded search over heartbeat interval x arrival-time law x tick phase in virtual time against a scripted peer; banded timing oracle; evidence, not proof"),
    "C13": ("exploration", "seeded stateful comparison of the real Journaler (real SQLite) with a map model, operation by operation, across close + reopen; the fault-free configuration of C08's machine"),
    "C14": ("exploration", "seeded search over interleavings of 2-3 sender tasks, the heartbeat task and the reader task at the library's real suspension points (drain under back-pressure with FIFO wake-up, awaited hooks); evidence, not proof (not the exhaustive bounded enumeration)"),
    "C17": ("exploration", "seeded search over interleavings of client requests and exchange reports with two in-flight queues between the real order object and an executable model of the FIX 4.4 order state matrices; evidence, not proof"),
    "C20": ("exploration", "differential simulation: seeded clean session scripts run against FIXTester's simulated acceptor and against a real acceptor endpoint under the same virtual clock; plus the order machine driven with helper-fabricated reports validated against tests/FIX44.xml"),
}

NOTES = {
    "C08": "trusted: SQLite atomic commit (process crash, not power loss); crash points are statement/commit boundaries",
    "C13": "trusted: the 30-line map model; fault-free configuration only (crashes are C08)",
    "C17": "trusted: RefExchange (executable FIX 4.4 order state matrices), cross-checked against the matrix scenarios replayed by the repo's own tests",
    "C20": "trusted: FIXSchema as validator (C15 not claimed), RefExchange; SimNet TCP model for the real-acceptor leg",
}
DEFAULT_NOTE = "trusted: SimNet's TCP model (no loss/dup/reorder inside a live connection), CPython asyncio tasks and streams, SQLite, the independent reference framer/encoder and scripted peer; sampling only"

NOT_APPLICABLE = [
    ("C01", "pure synchronous encode/decode function of its input; no schedule, clock, I/O or fault for a simulator to own"),
    ("C15", "pure validator over (dictionary, message); nothing for a simulator to own"),
    ("C16", "total function on a finite domain; exhaustive table comparison, not simulation, decides it"),
    ("C18", "sequential in-memory container; no concurrency, time, I/O or multi-party behaviour"),
    ("C19", "lexical-space equality of pure validators; an enumeration/generation problem"),
]
ALL_SIM = ["C02", "C03", "C04", "C05", "C06", "C07", "C08", "C09", "C10", "C11", "C12", "C13", "C14", "C17", "C20"]


def main():
    avail = [c for c in ALL_SIM if c in checks.available()]
    if "--only" in sys.argv:
        only = sys.argv[sys.argv.index("--only") + 1].split(",")
        avail = [c for c in avail if c in only]
    out_checks = []
    for cid in avail:
        cat, text = LEVEL_TEXT[cid]
        ck = checks.get(cid)
        assert ck.LEVEL == cat, (cid, ck.LEVEL, cat)
        out_checks.append({
            "property_id": cid,
            "quick_cmd": f"bin/check {cid} --tier quick",
            "thorough_cmd": f"bin/check {cid} --tier thorough",
            "evidence_file": f"/verif/evidence/{cid}.json",
            "replay_cmd_template": "bin/check --replay {path}",
            "engine": "simfix",
            "level_claimed": {"category": cat, "text": text, "design_ref": f"DESIGN.md section 7, {cid}"},
            "level_note": NOTES.get(cid, DEFAULT_NOTE),
            "technique": TECH + (" (crash points enumerated per sampled history)" if cat == "fault_enumeration"
                                 else " (seeded schedule/fault search, virtual time)"),
        })
    na = [{"property_id": p, "reason": r} for p, r in NOT_APPLICABLE]
    for cid in ALL_SIM:
        if cid not in avail:
            na.append({"property_id": cid, "reason": "simulation target (DESIGN.md section 7) whose check is not built/validated yet; not claimed until it is"})
    man = {
        "version": 1,
        "setup_cmd": "bin/check selftest-determinism --n 6",
        "hooks": {
            "guard": "ASYNCFIX_VERIF",
            "enable": "no source hooks are needed: every seam is taken from outside (module-global rebinding of asyncio.open_connection/start_server, asyncfix.connection.time, asyncfix.codec.datetime, asyncfix.protocol.order_single.datetime, asyncfix.journaler.sqlite3; subclassing of the public classes); checks import asyncfix from /repo's working tree",
            "baseline_off_cmd": "cd /repo && /venv/bin/python -m pytest -ra -q -p no:cacheprovider --timeout=900 --continue-on-collection-errors",
            "source_commits": [],
            "add_only": True,
        },
        "engines": [{
            "name": "simfix", "path": "/verif/simfix", "serves_properties": avail,
            "kind_free_text": "deterministic simulation: virtual-time asyncio loop, simulated TCP, SQLite statement-boundary crash snapshots, seeded chooser with recorded action traces, delta-debugging minimiser, replay files",
        }],
        "checks": out_checks,
        "not_applicable": na,
        "notes": "exit 0 = held (KNOWN-FINDING lines for listed findings), 1 = VIOLATION line(s), 2 = harness error. known findings: /verif/known_findings.txt",
    }
    with open(os.path.join(VERIF, "MANIFEST.json"), "w") as f:
        json.dump(man, f, indent=1)
        f.write("\n")
    print("claimed:", avail)


main()
