"""C14 family: concurrent senders on one real endpoint.

2-3 application sender tasks, the endpoint's own heartbeat task (short interval,
so it really sends TestRequests) and its reader task (fed by a scripted peer
with TestRequests, ResendRequests, application frames, sequence gaps and the
Logon) share one outbound counter.  Suspension points are the library's real
ones: ``drain`` under chooser-driven back-pressure (FIFO wake-up is asyncio's
own) and the awaited application hooks.
"""
import random

from asyncfix import FIXMessage, FTag
from asyncfix.connection import ConnectionState
from asyncfix.errors import DuplicateSeqNoError
from asyncfix.message import MessageDirection

from .. import refframer
from ..core import FAULT, Violation
from .peer import PeerSim

BIG = 2**62
SKIP_CMP = {"8", "9", "10", "52", "122", "43"}


def make_config(seed, tier="quick"):
    r = random.Random(seed ^ 0xC14)
    thorough = tier == "thorough"
    n_tasks = r.choice([2, 2, 3])
    return dict(
        u8=random.Random(seed ^ 0xC14A8).random() < 0.3,  # non-ASCII values in application messages (separate stream)
        # frames above asyncio's 64 KiB high-water mark from some senders (a frame must stay one piece on the wire
        # whatever the other tasks do while its sender waits for the transport)
        huge=random.Random(seed ^ 0xC1464).random() < 0.06,
        odd_headers=random.Random(seed ^ 0xC140D).random() < 0.2,
        # the peer's Logon carries NextExpectedMsgSeqNum(789) (optional in FIX 4.4), here with a value BELOW what we
        # have sent: nothing the peer says may rewind our outbound numbering
        logon_789=random.Random(seed ^ 0xC1489).random() < 0.25,
        seed=seed,
        eut_role=r.choice(["acceptor", "initiator"]),
        hb=r.choice([1, 2, 3, 3, 30]),
        eut_in=r.choice([1, 1, 3]),
        eut_out=r.choice([1, 1, 1, 5]),
        n_tasks=n_tasks,
        sends_per_task=r.randint(1, 6 if not thorough else 10),
        n_stim=r.randint(0, 8 if not thorough else 16),
        stim_kinds=r.sample(["rr", "rr", "testreq", "app", "gap", "hb"], r.randint(1, 6)),
        p_pause=r.choice([0.0, 0.2, 0.5, 0.8]),
        p_hook=r.choice([0.0, 0.2, 0.5]),
        hook_names=r.sample(["should_replay", "on_state_change", "on_message", "on_logon"], r.randint(1, 4)),
        p_act=r.choice([0.5, 0.8, 0.95]),
        p_more=r.choice([0.0, 0.3, 0.6]),
        p_delay=r.choice([0.0, 0.02, 0.1]),
        w_send=r.choice([1.0, 3.0, 6.0]),
        w_stim=r.choice([0.5, 2.0, 4.0]),
        w_resume=r.choice([0.3, 1.0, 3.0]),
        w_hook_done=r.choice([0.3, 1.0, 3.0]),
        w_deliver=r.choice([1.0, 4.0]),
        early_sends=r.random() < 0.4,  # senders may try before the Logon exchange completed
        chunk_law="whole",
        max_actions=80 if not thorough else 200,
        settle_s=8.0,
        settle_extra_s=0.5,
        max_boundaries=5000,
        start_offset=round(r.random(), 3),
    )


class SendersSim(PeerSim):
    family = "senders"

    def setup_family(self):
        cfg = self.cfg
        self.peer.auto.update(logon=True, testreq=True, resend=True, logout=True)
        self.peer.next_out = cfg["eut_in"]
        self.peer.logon_extra = [("789", "1")] if cfg.get("logon_789") else []
        self.task_busy = [False] * cfg["n_tasks"]
        self.task_done = [0] * cfg["n_tasks"]
        self.send_log = []  # dict(task, k, mid, status, exc)
        self.n_stim = 0
        self.app_id = 0
        self.was_disconnected = False
        if self.eut_role == "acceptor":
            self.logon_pending = True
        else:
            self.logon_pending = False

    def peer_event(self, kind):
        if kind == "connected" and self.eut_role == "acceptor" and self.logon_pending:
            self.logon_pending = False
            self.peer.send("A", [("98", "0"), ("108", self.cfg["hb"])] + list(self.peer.logon_extra), spec={"stim": "logon"})

    def ep_event(self, ep, kind, *args):
        if kind == "on_disconnect":
            self.was_disconnected = True

    def hook_p(self, label, hname):
        return self.cfg["p_hook"] if hname in self.cfg["hook_names"] else 0.0

    # --------------------------------------------------------------- actions
    def writer_up(self):
        return self.eut.connection_state >= ConnectionState.NETWORK_CONN_ESTABLISHED

    def session_up(self):
        return self.eut.connection_state in (
            ConnectionState.ACTIVE, ConnectionState.RESENDREQ_AWAITING,
            ConnectionState.RESENDREQ_HANDLING, ConnectionState.RECV_SEQNUM_TOO_HIGH,
        )

    def enabled_actions(self):
        out = self.net_enabled()
        cfg = self.cfg
        can_send = self.session_up() or (cfg["early_sends"] and self.writer_up())
        if can_send:
            for i in range(cfg["n_tasks"]):
                if not self.task_busy[i] and self.task_done[i] < cfg["sends_per_task"]:
                    out.append((("send", i), cfg["w_send"]))
        if self.n_stim < cfg["n_stim"] and self.peer.connected and self.session_up():
            out.append((("stim",), cfg["w_stim"]))
        return out

    def concretize(self, proto):
        r = self.rng
        if proto[0] == "send":
            types = ["D", "D", "8", "0"]
            if not self.session_up():
                # before the Logon exchange completed only Logon / Logout are accepted: a Logout racing
                # with the Logon that another task is still sending
                types = types + ["5", "5"]
            return ["send", proto[1], r.choice(types)]
        if proto[0] == "stim":
            kind = r.choice(self.cfg["stim_kinds"])
            if kind == "rr":
                L = max(1, self.live().next_num_out - 1)
                b = r.choice([1, 1, max(1, L // 2), L, max(1, L - 1)])
                e = r.choice([0, 0, b, L, max(b, L - 1)])
                return ["stim", "rr", b, e]
            if kind == "gap":
                return ["stim", "gap", r.randint(1, 3), 0]
            return ["stim", kind, 0, 0]
        return super().concretize(proto)

    def can_fire_family(self, a):
        if a[0] == "send":
            i = a[1]
            return (i < self.cfg["n_tasks"] and not self.task_busy[i]
                    and self.task_done[i] < self.cfg["sends_per_task"] and self.writer_up())
        if a[0] == "stim":
            return self.n_stim < self.cfg["n_stim"] and self.peer.connected
        return False

    def fire_family(self, a):
        if a[0] == "send":
            _, i, mtype = a
            k = self.task_done[i]
            self.task_done[i] += 1
            self.task_busy[i] = True
            mid = f"T{i}-{k}"
            if mtype == "0":
                m = FIXMessage("0")
            elif mtype == "5":
                m = FIXMessage("5", {58: f"task {i} logout {k}"})
            else:
                m = FIXMessage(mtype, {11: mid, 55: "ES", 54: "1", 38: k + 1, 44: "3.25"})
                text = (f"t\u00e4sk {i} msg {k} \u20ac\u4e2d" if self.cfg.get("u8") else f"task {i} msg {k}")
                if self.cfg.get("huge") and (i + k) % 3 == 0:
                    text += " " + "x" * (70_000 if k % 2 else 140_000)
                if self.cfg.get("odd_headers") and (i + k) % 5 == 4:
                    # ... or a value the encoder cannot turn into bytes at all: the send fails, without a trace
                    text = "lone surrogate \ud800 " + text
                    self.fault("send_of_unencodable_message")
                m[58] = text
                if self.cfg.get("odd_headers") and (i + 2 * k) % 3 == 0:
                    # a new message object that still carries header fields of an earlier life (cloned from a
                    # received / journaled message): an explicit PossDupFlag=N, a stale MsgSeqNum
                    if k % 2 == 0:
                        m[43] = "N"
                    if (i + k) % 2 == 0:
                        m[34] = max(1, self.live().next_num_out + (k % 3) - 1)
            ent = dict(task=i, k=k, mid=mid, type=mtype, status="pending", exc=None)
            ent["ev0"] = self.rec("send_call", i, k)
            self.send_log.append(ent)
            self.spawn(self._do_send(i, ent, m), f"sender-{i}-{k}")
        elif a[0] == "stim":
            _, kind, x, y = a
            self.n_stim += 1
            p = self.peer
            if kind == "rr":
                p.send("2", [("7", x), ("16", y)], spec={"stim": "rr"})
            elif kind == "testreq":
                p.send("1", [("112", f"PT{self.n_stim}")], spec={"stim": "tr"})
            elif kind == "hb":
                p.send("0", [], spec={"stim": "hb"})
            elif kind == "app":
                self.app_id += 1
                p.send("D", [("11", f"P-{self.app_id}"), ("55", "ES"), ("54", "1"), ("38", "1"), ("44", "1")],
                       spec={"stim": "app"})
            elif kind == "gap":
                self.app_id += 1
                p.send("D", [("11", f"P-{self.app_id}"), ("55", "ES"), ("54", "1"), ("38", "1"), ("44", "1")],
                       seq=p.next_out + x, spec={"stim": "gap"})
        else:
            super().fire_family(a)

    async def _do_send(self, i, ent, m):
        try:
            await self.eut.send_msg(m)
        except BaseException as e:
            ent["status"] = "raised"
            ent["exc"] = type(e).__name__
            self.rec("send_raised", i, ent["k"], type(e).__name__)
            self.task_busy[i] = False
            if isinstance(e, DuplicateSeqNoError):
                self.dup_error = ("sender task", repr(e)[:120])
            if not isinstance(e, Exception):
                raise
            return
        ent["status"] = "ok"
        self.rec("send_ok", i, ent["k"])
        self.task_busy[i] = False

    dup_error = None

    def fault_phase_over(self):
        if super().fault_phase_over():
            return True
        cfg = self.cfg
        if all(d >= cfg["sends_per_task"] for d in self.task_done) and self.n_stim >= cfg["n_stim"]:
            return True
        return self.n_boundaries > 400 and not self.writer_up()

    def converged(self):
        return not any(self.task_busy) and not self.pending_hooks

    # ---------------------------------------------------------------- oracle
    def wire(self):
        """EUT frames in wire (stream) order: (evno, fdict, frame, dropped)."""
        return [(ev, d, fr, dropped) for (ev, cid, d, fr, dropped) in self.frames_written("E")]

    def step_check(self):
        # DuplicateSeqNoError must never surface: neither to a caller nor to the log
        if self.dup_error is None:
            for (ev, label, level, msg, exc) in self.lib_logs[getattr(self, "_log_ptr", 0):]:
                if exc and "DuplicateSeqNoError" in exc:
                    self.dup_error = ("library log", exc[:120])
            self._log_ptr = len(self.lib_logs)
        if self.dup_error is not None:
            where, what = self.dup_error
            raise Violation("duplicate-seqno-error", f"C14/duplicate-seqno-error/{where.replace(' ', '-')}",
                            f"DuplicateSeqNoError reached the {where}: {what}")

    def judge(self):
        self.step_check()
        cfg = self.cfg
        start = cfg["eut_out"]
        max_new = start - 1
        new_frames = {}
        first_body = {}
        in_replay_new = 0
        last_was_replay = False
        seen_any_replay = False
        new_app_numbers = set()
        for (ev, d, fr, dropped) in self.wire():
            t = d.get("35")
            try:
                n = int(d.get("34", ""))
            except ValueError:
                raise Violation("bad-frame", "C14/frame-without-number", f"frame without numeric MsgSeqNum: {fr[:80]!r}")
            body = [(k, v) for k, v in refframer.fields(fr) if k.decode("latin-1") not in SKIP_CMP]
            if t == "4":
                m = int(d.get("36", "0"))
                if d.get("123") == "Y":
                    if not (n < m <= max_new + 1):
                        raise Violation("gapfill-range", "C14/gapfill-covers-unsent-numbers",
                                        f"GapFill 34={n} 36={m} while the highest new number on the wire was {max_new}")
                    covered = sorted(k for k in new_app_numbers if n <= k < m)
                    if covered:
                        # (no replay filter declines anything in this family: an application message that went
                        # out under its number is retransmitted, never skipped)
                        raise Violation("gapfill-over-application-message", "C14/gapfill-reuses-number-of-application-message",
                                        f"GapFill 34={n} 36={m} covers number(s) {covered[:5]} under which new application "
                                        "messages were written: a number is reused by a frame that is not its retransmission")
                    seen_any_replay = last_was_replay = True
                    self.probe("gapfill_frames")
                continue
            if d.get("43") == "Y":
                if n > max_new:
                    raise Violation("retransmission-of-unsent", "C14/retransmission-number-never-sent",
                                    f"PossDup frame 34={n} but the highest new number on the wire was {max_new}")
                if n in first_body and first_body[n] != body:
                    raise Violation("retransmission-reuses-foreign-number", "C14/retransmission-differs-from-original",
                                    f"PossDup frame 34={n} differs from the new frame sent under {n}")
                seen_any_replay = last_was_replay = True
                self.probe("retransmission_frames")
                continue
            # a new frame
            if n in new_frames:
                raise Violation("number-reused", f"C14/new-frame-reuses-number/type={t}",
                                f"two new frames carry MsgSeqNum {n}: 35={new_frames[n][0].get('35')} and 35={t}")
            if n <= max_new:
                raise Violation("not-increasing", f"C14/new-frames-not-increasing/type={t}",
                                f"new frame 34={n} written after new frame 34={max_new}")
            if n != max_new + 1:
                self.probe("new_number_skips")
            if last_was_replay:
                in_replay_new += 1
            last_was_replay = False
            new_frames[n] = (d, fr, dropped)
            first_body[n] = body
            max_new = n
            if t not in refframer.SESSION_TYPES:
                new_app_numbers.add(n)
        if seen_any_replay and in_replay_new:
            self.probe("new_frame_written_between_replay_frames", in_replay_new)
        # journal: every new frame under its number
        rows = {}
        for raw in self.journal.recover_messages(self.live(), MessageDirection.OUTBOUND, -BIG, BIG):
            dd = refframer.fdict(raw)
            rows[int(dd.get("34", "0"))] = raw
        for n, (d, fr, dropped) in new_frames.items():
            if rows.get(n) != fr:
                what = "missing" if n not in rows else "different"
                raise Violation("journal", f"C14/new-frame-not-journaled/{what}",
                                f"new frame 34={n} 35={d.get('35')} is {what} in the outbound journal")
        # counters at the end (all tasks finished: judged after the settle phase)
        if any(self.task_busy) or self.pending_hooks:
            self.probe("tasks_unfinished_at_end")
            return
        live_out = self.live().next_num_out
        stored_out = self.journal.stored()[1]
        if stored_out != live_out:
            raise Violation("stored-counter", "C14/stored-next-out-differs-from-live",
                            f"stored next outbound number {stored_out}, live {live_out}, highest new number on the wire {max_new}")
        if stored_out < max_new + 1:
            raise Violation("stored-counter", "C14/stored-next-out-below-highest-sent",
                            f"stored next outbound number {stored_out}, highest new number sent {max_new}: the next "
                            "incarnation would reuse a number")
        if self.was_disconnected:
            # a send that raced with a disconnect may have consumed (and journaled) a number that never
            # reached the transport; equality is only demanded of undisturbed sessions
            self.probe("runs_with_a_disconnect")
        elif stored_out != max_new + 1:
            raise Violation("stored-counter", "C14/stored-next-out-not-highest-plus-one",
                            f"stored next outbound number {stored_out}, highest new number sent {max_new}")
        if len(new_frames) >= 2:
            self.probe("runs_with_two_or_more_new_frames")

    def abstract_state(self):
        lv = self.live()
        conn = self.net.conns[-1] if self.net.conns else None
        paused = bool(conn and any(t is not None and t.paused for t in conn.tr))
        return (int(self.eut.connection_state), sum(self.task_busy), paused, min(len(self.pending_hooks), 2),
                min(lv.next_num_out, 12) if lv else 0)

    def sample(self):
        d = super().sample()
        d["sends"] = [(e["mid"], e["type"], e["status"], e["exc"]) for e in self.send_log[:24]]
        d["wire(35,34,43)"] = [(f.get("35"), f.get("34"), f.get("43")) for (_, f, _, _) in self.wire()[:50]]
        return d
