"""C20 half (b): differential simulation of the bundled test helper.

One seeded *clean* session script (Logon, application traffic both ways,
TestRequests, Heartbeats, optional Logout) is executed in two worlds that share
one virtual clock:

  world 1 (real):   initiator I  <-- SimNet (zero latency) -->  real acceptor R
  world 2 (helper): initiator H  <-- FIXTester's simulated acceptor (ft.conn_accept)

After every step (a quiescent point of both worlds) the initiator-visible
history is compared: frames of both directions (field-wise, without 52/9/10),
the initiator's counters, its connection_state and its on_message deliveries.
"""
import asyncio
import copy
import pickle
import random

import asyncfix.codec
from asyncfix import FIXMessage, FMsg, FTag
from asyncfix.connection import ConnectionState
from asyncfix.fix_tester import FIXTester
from asyncfix.protocol.common import FExecType, FOrdStatus
from asyncfix.protocol.order_single import FIXNewOrderSingle

from .. import refframer
from ..apps import SimClient, SimServer, make_endpoint
from ..core import EPOCH, FAULT, Sim, Violation
from .order import fix44_schema
from .pair import TapJournaler

HOST, PORT = "sim.host", 9200
STEP = 0.25
IGNORE = {"52", "9", "10"}
KINDS = ["i_app", "i_app", "a_app", "a_app", "i_testreq", "a_testreq", "i_hb", "a_hb"]


def make_config(seed, tier="quick"):
    r = random.Random(seed ^ 0xC20B)
    thorough = tier == "thorough"
    n = r.randint(1, 24 if not thorough else 60)
    script = ["logon"] + [r.choice(KINDS) for _ in range(n)]
    end = r.choice(["none", "none", "logout_i", "logout_a"])
    if end != "none":
        script.append(end)
    sym = r.random() < 0.4
    i_out = r.choice([1, 1, 2, 5, 40])
    i_in = i_out if sym else r.choice([1, 3, 7, 12])
    return dict(
        seed=seed, half="c20b", script=script, hb=r.choice([30, 30, 60, 120]),
        i_out=i_out, i_in=i_in, with_schema=r.random() < 0.7,
        start_offset=round(r.random(), 3),
        max_actions=5, p_act=0.0, max_boundaries=20000, max_fault_boundaries=20000,
        settle_s=1.0, settle_extra_s=0.0,
    )


def norm(frame_or_str):
    b = frame_or_str.encode("utf-8") if isinstance(frame_or_str, str) else frame_or_str
    return [(k.decode("latin-1"), v.decode("latin-1")) for k, v in refframer.fields(b) if k.decode("latin-1") not in IGNORE]


class HelperDiffSim(Sim):
    family = "helperdiff"

    def setup(self):
        cfg = self.cfg
        hb = cfg["hb"]
        self.net.register(HOST, PORT, "R", "I")
        self.j = {n: TapJournaler() for n in ("I", "R", "H")}
        self.R = make_endpoint(self, SimServer, "R", "SRV", "CLI", self.j["R"], HOST, PORT, hb)
        self.I = make_endpoint(self, SimClient, "I", "CLI", "SRV", self.j["I"], HOST, PORT, hb)
        self.H = make_endpoint(self, SimClient, "H", "CLI", "SRV", self.j["H"], HOST, PORT + 1, hb)
        self.I.auto_logon = False
        self.H.auto_logon = False
        if cfg["i_out"] != 1 or cfg["i_in"] != 1:
            for n in ("I", "H"):
                self.j[n].set_seq_num(self.j[n].live, next_num_out=cfg["i_out"], next_num_in=cfg["i_in"])
            self.j["R"].set_seq_num(self.j["R"].live, next_num_out=cfg["i_in"], next_num_in=cfg["i_out"])
        # the helper is attached the way the repo's own tests do it
        self.H._connection_state = ConnectionState.NETWORK_CONN_ESTABLISHED
        self.ft = FIXTester(schema=fix44_schema() if cfg["with_schema"] else None, connection=self.H)
        self.frames = {"I": [], "R": [], "H": [], "HA": []}
        self.install_encode_tap()
        self.step_no = -1
        self.done = False
        self.app_k = 0
        self.log = []
        self.spawn(self._server(), "R-connect")
        self.loop.call_later(cfg["start_offset"] * 0.5, lambda: self.spawn(self._client(), "I-connect"))
        self.loop.call_at(EPOCH + 2.0, lambda: self.spawn(self.driver(), "driver"))

    async def _server(self):
        await self.R.connect()

    async def _client(self):
        await self.I.connect()

    # ------------------------------------------------------------ encode tap
    def install_encode_tap(self):
        sim = self
        orig = asyncfix.codec.Codec.encode
        self._orig_encode = orig

        def tapped(codec_self, msg, session, *a, **kw):
            out = orig(codec_self, msg, session, *a, **kw)
            lab = sim.label_of_session(session)
            sim.frames[lab].append(out)
            sim.rec("encode", lab, str(getattr(msg, "msg_type", "?")))
            return out

        asyncfix.codec.Codec.encode = tapped

    def label_of_session(self, session):
        for n in ("I", "R", "H"):
            if session is self.j[n].live:
                return n
        return "HA"

    def teardown(self):
        try:
            super().teardown()
        finally:
            asyncfix.codec.Codec.encode = self._orig_encode

    # zero-latency network in world 1
    def on_boundary(self):
        if self.phase == FAULT and self.loop is not None:
            for a in self.settle_actions():
                self.fire(a)
        super().on_boundary()

    def enabled_actions(self):
        return []

    def _replay_boundary(self):
        # the run is driven by virtual time and the plan in its config, not by chooser actions: a replay ends
        # its fault phase where the search run did (inline decisions still come from the trace)
        if self.fault_phase_over():
            self.begin_settle()
        else:
            self._record_run()

    def fault_phase_over(self):
        return self.done or self.loop.time() > EPOCH + 2.0 + STEP * (len(self.cfg["script"]) + 8)

    def converged(self):
        return True

    def ep_event(self, ep, kind, *args):
        pass

    # ---------------------------------------------------------------- driver
    def app_msg(self):
        self.app_k += 1
        o = FIXNewOrderSingle(f"ord{self.app_k}", "US.F.TICKER", "1", 100.0 + self.app_k, 10)
        return o, o.new_req()

    def exec_report(self):
        """An ExecutionReport fabricated by the helper itself (for acceptor -> initiator traffic)."""
        self.app_k += 1
        o = FIXNewOrderSingle(f"rep{self.app_k}", "US.F.TICKER", "2", 50.0, 5)
        o.new_req()
        self.ft.order_register_single(o)
        return self.ft.fix_exec_report_msg(o, o.clord_id, FExecType.PENDING_NEW, FOrdStatus.PENDING_NEW)

    async def driver(self):
        try:
            for k, step in enumerate(self.cfg["script"]):
                self.step_no = k
                self.rec("step", k, step)
                await self.do_step(step)
                await asyncio.sleep(STEP)
                self.compare(k, step)
                if self.violation is not None:
                    break
        except Violation as v:
            if self.violation is None:
                self.violation = v
        except Exception as e:  # a harness-visible failure of a clean script is itself a difference
            if self.violation is None:
                self.violation = Violation("script-raised", f"C20/session-script-raised/{type(e).__name__}/step={self.cfg['script'][self.step_no]}",
                                           f"step #{self.step_no} {self.cfg['script'][self.step_no]} raised {e!r}")
        finally:
            self.done = True
            if self.violation is not None:
                self._stop("violation")

    async def both(self, real, helper):
        """Run the step in both worlds; an exception must occur in both or in neither."""
        res = []
        for name, fn in (("real", real), ("helper", helper)):
            try:
                await fn()
                res.append(None)
            except Exception as e:
                res.append(type(e).__name__)
        if res[0] != res[1]:
            raise Violation("exception-differs", f"C20/step-outcome-differs/step={self.cfg['script'][self.step_no]}",
                            f"step #{self.step_no} {self.cfg['script'][self.step_no]}: real acceptor world -> {res[0]}, helper world -> {res[1]}")

    async def do_step(self, step):
        I, R, H, ft = self.I, self.R, self.H, self.ft
        hb = self.cfg["hb"]
        now_id = int(self.loop.time())

        async def h_process():
            if ft.acceptor_rcv_que:
                await ft.process_msg_acceptor()

        if step == "logon":
            async def real():
                await I.send_msg(FIXMessage(FMsg.LOGON, {FTag.EncryptMethod: "0", FTag.HeartBtInt: hb}))

            async def helper():
                await H.send_msg(ft.msg_logon({FTag.EncryptMethod: "0", FTag.HeartBtInt: hb}))
                await h_process()
        elif step == "i_app":
            _, m = self.app_msg()
            m2 = pickle.loads(pickle.dumps(m))

            async def real():
                await I.send_msg(m)

            async def helper():
                await H.send_msg(m2)
                await h_process()
        elif step == "a_app":
            m = self.exec_report()
            m2 = pickle.loads(pickle.dumps(m))

            async def real():
                await R.send_msg(m2)

            async def helper():
                await ft.reply(m)
                await h_process()
        elif step == "i_testreq":
            async def real():
                await I.send_test_req()

            async def helper():
                await H.send_test_req()
                await h_process()
        elif step == "a_testreq":
            async def real():
                await R.send_test_req()

            async def helper():
                await ft.reply(ft.msg_test_request(now_id))
                await h_process()
        elif step == "i_hb":
            async def real():
                await I.send_msg(FIXMessage(FMsg.HEARTBEAT))

            async def helper():
                await H.send_msg(ft.msg_heartbeat())
                await h_process()
        elif step == "a_hb":
            async def real():
                await R.send_msg(FIXMessage(FMsg.HEARTBEAT))

            async def helper():
                await ft.reply(ft.msg_heartbeat())
                await h_process()
        elif step == "logout_i":
            async def real():
                await I.send_msg(FIXMessage(FMsg.LOGOUT))

            async def helper():
                await H.send_msg(ft.msg_logout())
                await h_process()
        elif step == "logout_a":
            async def real():
                await R.send_msg(FIXMessage(FMsg.LOGOUT))

            async def helper():
                await ft.reply(ft.msg_logout())
                await h_process()
        else:
            raise AssertionError(step)
        await self.both(real, helper)

    # --------------------------------------------------------------- compare
    def compare(self, k, step):
        after = f"after={step}"
        fI, fH = [norm(f) for f in self.frames["I"]], [norm(f) for f in self.frames["H"]]
        fR, fA = [norm(f) for f in self.frames["R"]], [norm(f) for f in self.frames["HA"]]
        self.log.append((k, step, self.I.connection_state.name, self.H.connection_state.name,
                         self.counters("I"), self.counters("H"), len(fI), len(fR)))

        def first_diff(a, b):
            for i in range(max(len(a), len(b))):
                x = a[i] if i < len(a) else None
                y = b[i] if i < len(b) else None
                if x != y:
                    return i, x, y
            return None

        d = first_diff(fI, fH)
        if d is not None:
            i, x, y = d
            raise Violation("initiator-frames-differ", f"C20/initiator-frames-differ/{after}",
                            f"step #{k} {step}: initiator frame #{i}: against the real acceptor {fmt(x)}, against the helper {fmt(y)}")
        d = first_diff(fR, fA)
        if d is not None:
            i, x, y = d
            raise Violation("acceptor-frames-differ", f"C20/acceptor-frames-differ/{after}",
                            f"step #{k} {step}: acceptor frame #{i}: real acceptor {fmt(x)}, helper's simulated acceptor {fmt(y)}")
        cI, cH = self.counters("I"), self.counters("H")
        if cI != cH:
            raise Violation("counters-differ", f"C20/initiator-counters-differ/{after}",
                            f"step #{k} {step}: initiator (next_in, next_out) against the real acceptor {cI}, against the helper {cH}")
        sI, sH = self.I.connection_state, self.H.connection_state
        if sI != sH:
            raise Violation("state-differs", f"C20/initiator-state-differs/{after}/real={sI.name}/helper={sH.name}",
                            f"step #{k} {step}: initiator connection_state against the real acceptor {sI.name}, against the helper {sH.name}")
        dI = [(mid, str(m.msg_type)) for (_, mid, m) in self.I.delivered]
        dH = [(mid, str(m.msg_type)) for (_, mid, m) in self.H.delivered]
        if dI != dH:
            raise Violation("deliveries-differ", f"C20/initiator-deliveries-differ/{after}",
                            f"step #{k} {step}: on_message against the real acceptor {dI[-3:]}, against the helper {dH[-3:]}")
        if [s for (_, s) in self.I.states if s > ConnectionState.NETWORK_CONN_ESTABLISHED] != \
                [s for (_, s) in self.H.states if s > ConnectionState.NETWORK_CONN_ESTABLISHED]:
            self.probe("initiator_state_sequences_differ")
        if self.R.connection_state != self.ft.conn_accept.connection_state:
            self.probe("acceptor_state_differs_" + step)
        self.probe("steps_compared")

    def counters(self, n):
        s = self.j[n].live
        return (s.next_num_in, s.next_num_out)

    def judge(self):
        if not self.done and self.violation is None:
            raise Violation("script-unfinished", "C20/session-script-did-not-finish", f"driver stopped at step {self.step_no}")

    def abstract_state(self):
        return (int(self.I.connection_state), int(self.H.connection_state), min(self.step_no, 30))

    def sample(self):
        return dict(config={k: self.cfg[k] for k in ("script", "hb", "i_out", "i_in", "with_schema")},
                    steps=self.log[:30])


def fmt(fields):
    if fields is None:
        return "<none>"
    return "|".join(f"{k}={v}" for k, v in fields)[:200]
