"""C03 / C10 family: a well-behaved scripted peer streams frames at a real
endpoint; the chooser decides how the byte stream is chunked into reads (C03)
and how it is corrupted in flight (C10)."""
import random

from asyncfix.connection import ConnectionState
from asyncfix.message import MessageDirection

from .. import refframer
from ..core import HarnessError, Violation
from .peer import PeerSim

MARK = b"8=FIX."
CHUNK_LAWS = ["whole", "cut1", "cut1", "cut2", "byte", "small", "mixed", "marker", "over4096", "all"]
CORRUPT_KINDS = ["subst", "delete", "insert", "insert_nul", "dup", "insert_special", "subst_special"]
SPECIAL_BYTES = b"\n\r\t +-.0123456789=\x01\x00\x0b\x0c\x85\xa0"
MALFORMED = ["bodylen_alpha", "bodylen_neg", "bodylen_huge", "cks_alpha", "tag_alpha", "no_equals",
             "empty_field", "wrong_order", "truncated", "wrong_begin", "blob",
             "odd_dup_tag", "odd_tag_after_group", "odd_group_structure", "odd_random_tags", "hdr_value_alpha",
             "odd_huge_number", "bodylen_giant", "tag_intlike"]
# tags of the FIX 4.4 repeating-group table (count tags and members, nested ones included) + plain ones
ODD_POOL = ["453", "448", "447", "452", "802", "523", "803", "454", "455", "456", "555", "600", "539", "524", "525",
            "538", "804", "545", "805", "136", "137", "138", "139", "78", "79", "80", "11", "55", "54", "38", "44",
            "58", "1", "15", "60", "0", "99999"]


def make_config(seed, tier="quick", corrupt=False, index=0):
    r = random.Random(seed ^ (0xC10 if corrupt else 0xC03))
    thorough = tier == "thorough"
    n_frames = r.randint(1, 12 if not thorough else 24)
    cfg = dict(
        seed=seed,
        eut_role=r.choice(["acceptor", "initiator"]),
        hb=1000,
        eut_in=r.choice([1, 1, 7]),
        eut_out=r.choice([1, 1, 5]),
        n_frames=n_frames,
        size_law=r.choice(["small", "small", "mixed", "big"]),
        garbage=(not corrupt) and r.random() < 0.35,
        chunk_law=r.choice(CHUNK_LAWS),
        cut_index=index,
        corrupt=corrupt,
        p_act=1.0,
        p_more=r.choice([0.0, 0.5]),
        p_delay=0.0,
        max_actions=6000 if not thorough else 20000,
        max_boundaries=30000,
        max_fault_boundaries=20000,
        max_handles=400_000,
        settle_s=5.0,
        settle_extra_s=1.0,
    )
    # separate stream: degenerate reads of exactly 1 (or at most 2..7) bytes whatever the delivery grouping
    rc = random.Random(seed ^ 0xC03CA9)
    cfg["read_cap"] = rc.choice([1, 1, 2, 3, 5, 7]) if rc.random() < 0.25 else 0
    if cfg["size_law"] == "big":
        cfg["read_cap"] = 0  # (quadratic: every short read re-scans a 12 KB partial frame)
    # the stream is padded (marker-free bytes behind the last frame) to a multiple of the reader's 4096-byte read
    # size and delivered at once: the last read before the line goes idle is a completely filled one
    cfg["pipeline_logon"] = (not corrupt) and rc.random() < 0.1
    cfg["align4096"] = (not corrupt) and rc.random() < 0.08
    if cfg["align4096"]:
        cfg["chunk_law"] = "all"
        cfg["read_cap"] = 0
    # a network stall between two parts of one frame (separate stream, 1 C03 run in 7 of those whose chunk law cuts
    # frames): more than a heartbeat interval of simulated time passes before the rest arrives - the watchdog sends
    # its TestRequest meanwhile, the peer is still there and the frame is still one frame
    rs = random.Random(seed ^ 0xC0357)
    if (not corrupt) and rs.random() < 1 / 7 and not cfg["align4096"]:
        if cfg["chunk_law"] not in ("cut1", "cut2", "marker", "byte", "small"):
            cfg["chunk_law"] = rs.choice(["cut1", "cut2", "small"])
        cfg["stall_cut"] = True
        cfg["hb"] = 5
        cfg["read_cap"] = 0
    if corrupt:
        cfg["n_frames"] = r.randint(1, 6)
        cfg["n_follow"] = r.randint(8, 12)
        cfg["n_faults"] = r.randint(1, 3)
        cfg["fault_kinds"] = r.sample(CORRUPT_KINDS + MALFORMED, r.randint(1, 6))
        cfg["avoid_nul"] = r.random() < 0.5
        cfg["chunk_law"] = r.choice(["whole", "all", "mixed", "small", "cut1", "over4096"])
    return cfg


_FRAGMENTS = [b"\x0110=", b"\x0110=123\x01", b"10=045\x01", b"\x0110=1", b"\x019=57\x01", b"9=5\x01", b"35=D\x01", b"\x0134=7\x01",
              b"=FIX.4.4\x01", b"8=FIX", b"8=", b"\x01", b"10=", b"\x0158=tail of a cut frame\x0110=201\x01"]


def gen_garbage(r, n):
    """Marker-free bytes: random, or built from pieces of FIX syntax (tail of a truncated frame, stray
    CheckSum / BodyLength fields) that contain no frame-start marker and do not end in a prefix of one."""
    while True:
        if r.random() < 0.5:
            g = bytes(r.randrange(256) for _ in range(n))
        else:
            parts = []
            while sum(map(len, parts)) < n:
                parts.append(r.choice(_FRAGMENTS) if r.random() < 0.7 else bytes(r.randrange(32, 127) for _ in range(r.randint(1, 6))))
            g = b"".join(parts)
        if MARK not in g and not any(g.endswith(MARK[:k]) for k in range(1, 6)):
            return g


class StreamSim(PeerSim):
    family = "stream"

    def setup_family(self):
        cfg = self.cfg
        self.peer.auto.update(testreq=True, resend=True, logout=False)
        self.peer.next_out = cfg["eut_in"]
        self.burst_done = False
        self.final_sent = False
        self.follow_sent = False
        self.n_corrupt = 0
        self.n_malformed = 0
        self.grammar_malformed = set()
        self.plan = []  # frames of the burst: dict(kind, frame, id, reqid)
        self.stream_len = 0
        self.cut_state = 0
        self.sent_frames = set()
        self.last_fault_ev = 0
        self.follow = []
        self.faults_applied = []
        self.r_content = random.Random(cfg["seed"] ^ 0xABCDEF)
        self.session_dropped = False
        self.stall_until = None
        if self.eut_role == "acceptor":
            self.logon_pending = True

    def peer_event(self, kind):
        if kind == "connected" and self.eut_role == "acceptor" and getattr(self, "logon_pending", False):
            self.logon_pending = False
            self.peer.send("A", [("98", "0"), ("108", self.cfg["hb"])], spec={"logon": 1})
            kind = "logon_sent"
        if kind == "logon_sent" and self.cfg.get("pipeline_logon") and not self.burst_done and not self.cfg["corrupt"]:
            # the peer does not wait for the Logon exchange to finish: its stream follows its Logon in the same
            # write / read (an acceptor answering Logon + queued reports back to back does exactly that)
            self.fault("stream_pipelined_behind_the_logon")
            self.fire_family(["burst"])

    def ep_event(self, ep, kind, *args):
        if kind == "on_disconnect":
            self.session_dropped = True

    # ------------------------------------------------------------- content
    def make_frame_spec(self, i, tag="S"):
        r = self.r_content
        law = self.cfg["size_law"]
        x = r.random()
        if x < 0.15:
            return dict(kind="hb")
        if x < 0.3:
            return dict(kind="tr", reqid=f"{tag}{i}")
        if law == "small":
            n = r.randint(0, 20)
        elif law == "mixed":
            n = r.choice([0, 3, 30, 300, 1500])
        else:
            n = r.choice([0, 10, 500, 3000, 4090, 5000, 12000])
        text = "".join(r.choice("abcdefghijklmnopqrstuvwxyz0123456789 =|;:.,-_/") for _ in range(n))
        return dict(kind="app", id=f"{tag}-{i}", text=text)

    def send_spec(self, sp, mark):
        if sp["kind"] == "hb":
            ent = self.peer.send("0", [], spec={mark: 1})
        elif sp["kind"] == "tr":
            ent = self.peer.send("1", [("112", sp["reqid"])], spec={mark: 1})
        else:
            body = [("11", sp["id"]), ("55", "ES"), ("54", "1"), ("38", "5"), ("44", "3.25")]
            if sp["text"]:
                body.append(("58", sp["text"]))
            ent = self.peer.send("D", body, spec={mark: 1})
        sp["frame"] = ent["frame"]
        sp["seq"] = ent["seq"]
        return ent

    # --------------------------------------------------------------- actions
    def active(self):
        return self.eut.connection_state == ConnectionState.ACTIVE and self.peer.connected

    def enabled_actions(self):
        cfg = self.cfg
        out = []
        if not self.burst_done:
            if self.active() and self.at_rest():
                out.append((("burst",), 5.0))
            return out + self.net_enabled()
        if self.stall_until is not None and self.loop.time() < self.stall_until:
            return []  # the network stalls: nothing is delivered, simulated time passes (timers only)
        out = self.net_enabled()
        if cfg.get("stall_cut") and self.stall_until is None:
            conn = self.peer_conn()
            if conn is not None:
                s = self.peer_side()
                rx = conn.tr[1 - s]
                rd = getattr(getattr(rx, "protocol", None), "_stream_reader", None) if rx is not None else None
                if conn.q[s] and rd is not None and not len(rd._buffer) and self.eut._msg_buffer and not self.loop._ready:
                    out.append((("stall",), 8.0))
        if cfg["chunk_law"] in ("cut1", "cut2", "marker", "byte", "small"):
            # a cut is a cut only if the reader has consumed what was delivered before the next bytes arrive
            # (otherwise the StreamReader coalesces the deliveries into one read)
            conn = self.peer_conn()
            if conn is not None:
                s = self.peer_side()
                rx = conn.tr[1 - s]
                rd = getattr(getattr(rx, "protocol", None), "_stream_reader", None) if rx is not None else None
                if rd is not None and len(rd._buffer):
                    out = [(a, w) for (a, w) in out if not (a[0] == "deliver" and a[1] == conn.cid and a[2] == s)]
                    self.stat("delivery_held_until_reader_consumed")
        if cfg["corrupt"] and self.n_corrupt < cfg["n_faults"] and not self.follow_sent:
            conn = self.peer_conn()
            if conn is not None and conn.inflight[self.peer_side()] > 0:
                out.append((("corrupt",), 3.0))
            out.append((("malformed",), 1.0))
        if cfg["corrupt"] and not self.follow_sent and self.n_corrupt >= 1:
            out.append((("follow",), 1.0 if self.n_corrupt < cfg["n_faults"] else 50.0))
        return out

    def peer_conn(self):
        return self.peer.tr.conn if self.peer.tr is not None else None

    def peer_side(self):
        return self.peer.tr.side

    def fault_phase_over(self):
        if super().fault_phase_over():
            return True
        if not self.burst_done:
            return self.n_boundaries > 400
        if self.cfg["corrupt"] and not self.follow_sent:
            return False
        conn = self.peer_conn()
        return conn is None or (not conn.q[0] and not conn.q[1] and self.at_rest())

    def concretize(self, proto):
        r = self.rng
        cfg = self.cfg
        if proto[0] == "corrupt":
            kinds = [k for k in cfg["fault_kinds"] if k in CORRUPT_KINDS] or ["subst"]
            if cfg["avoid_nul"]:
                kinds = [k for k in kinds if k != "insert_nul"] or ["subst"]
            kind = r.choice(kinds)
            conn = self.peer_conn()
            n = conn.inflight[self.peer_side()]
            pos = r.randrange(n)
            b = r.randrange(1 if cfg["avoid_nul"] else 0, 256)
            if kind in ("insert_special", "subst_special"):
                # whitespace / sign / digit / separator bytes right at field boundaries: the places where a
                # lenient int() or a regex accepts what a byte comparison would not
                data = b"".join(conn.q[self.peer_side()])
                cands = []
                for key in (b"\x0110=", b"\x019=", b"\x0134="):
                    i = data.find(key)
                    while i != -1 and len(cands) < 200:
                        j = data.find(b"\x01", i + 1)
                        if j != -1:
                            cands.extend(range(i + len(key), j + 1))
                        i = data.find(key, i + 1)
                if cands:
                    pos = r.choice(cands)
                b = r.choice([x for x in SPECIAL_BYTES if x or not cfg["avoid_nul"]])
            return ["corrupt", kind, pos, b]
        if proto[0] == "malformed":
            kinds = [k for k in cfg["fault_kinds"] if k in MALFORMED] or ["blob"]
            return ["malformed", r.choice(kinds), r.randrange(1 << 30)]
        return super().concretize(proto)

    def draw_chunk(self, conn, s):
        law = self.cfg["chunk_law"]
        r = self.rng
        total = conn.inflight[s]
        if s != self.peer_side() or law in ("whole", "byte", "small", "mixed", "all"):
            return super().draw_chunk(conn, s)
        if law == "cut1":
            if self.cut_state == 0 and self.stream_len > 1:
                self.cut_state = 1
                return 1 + self.cfg["cut_index"] % (self.stream_len - 1)
            return "all"
        if law == "cut2":
            if self.cut_state < 2 and total > 1:
                self.cut_state += 1
                return r.randint(1, total - 1)
            return "all"
        if law == "marker":
            # end a read 1..8 bytes into the next frame / inside its trailer
            data = b"".join(conn.q[s])
            cands = []
            i = data.find(MARK, 1)
            while i != -1 and len(cands) < 50:
                for k in range(-7, 9):
                    if 0 < i + k < len(data):
                        cands.append(i + k)
                i = data.find(MARK, i + 1)
            if cands and r.random() < 0.8:
                self.probe("read_ended_near_frame_marker")
                return r.choice(cands)
            return r.randint(1, max(1, total))
        if law == "over4096":
            return r.choice([4096, 4097, 5000, 8192, 20000])
        return "w"

    def can_fire_family(self, a):
        if a[0] == "burst":
            return not self.burst_done and self.active()
        if a[0] in ("corrupt", "malformed", "follow"):
            return self.cfg["corrupt"] and self.burst_done and not self.follow_sent and self.peer.connected
        if a[0] == "stall":
            return self.stall_until is None and self.burst_done and self.peer.connected
        return False

    def fire_family(self, a):
        cfg = self.cfg
        if a[0] == "burst":
            self.burst_done = True
            r = self.r_content
            conn = self.peer_conn()
            before = conn.inflight[self.peer_side()]
            for i in range(cfg["n_frames"]):
                sp = self.make_frame_spec(i)
                self.plan.append(sp)
                if cfg["garbage"] and r.random() < 0.4:
                    g = gen_garbage(r, r.randint(1, 40))
                    self.peer.send_raw(g, {"t": "garbage"})
                    self.fault("garbage_between_frames")
                self.send_spec(sp, "burst")
            self.stream_len = conn.inflight[self.peer_side()] - before
            if cfg.get("align4096"):
                pad = (-self.stream_len) % 4096
                while pad:
                    g = bytes(r.randrange(256) for _ in range(pad))
                    if MARK not in g and not any(g.endswith(MARK[:k]) for k in range(1, 6)):
                        self.peer.send_raw(g, {"t": "garbage"})
                        self.fault("stream_padded_to_a_multiple_of_the_read_size")
                        self.stream_len += pad
                        break
            if any(len(sp["frame"]) > 4096 for sp in self.plan):
                self.probe("frame_over_4096_bytes")
        elif a[0] == "stall":
            d = 1.2 * cfg["hb"]
            self.stall_until = self.loop.time() + d
            self.loop.call_at(self.stall_until, lambda: None)
            self.fault("stall_between_two_parts_of_a_frame")
            self.rec("stall", d, len(self.eut._msg_buffer))
        elif a[0] == "corrupt":
            self.apply_corruption(a[1], a[2], a[3])
        elif a[0] == "malformed":
            self.send_malformed(a[1], a[2])
        elif a[0] == "follow":
            self.follow_sent = True
            self.last_fault_ev = self.evno
            for i in range(cfg["n_follow"]):
                sp = self.make_frame_spec(i, tag="F")
                self.follow.append(sp)
                self.send_spec(sp, "follow")
        else:
            super().fire_family(a)

    def begin_settle(self):
        super().begin_settle()
        if (not self.cfg["corrupt"] and self.burst_done and self.violation is None and self.peer.connected
                and self.at_rest() and self.eut.connection_state == ConnectionState.ACTIVE):
            # the whole stream has been received (nothing in flight, the reader consumed its buffer and waits) and
            # nothing more is coming yet: every frame has to be handed over NOW, not when the next bytes arrive
            conn = self.peer_conn()
            rx = conn.tr[1 - self.peer_side()] if conn is not None else None
            rd = getattr(getattr(rx, "protocol", None), "_stream_reader", None) if rx is not None else None
            if rd is not None and not len(rd._buffer):
                want = [sp["id"] for sp in self.plan if sp["kind"] == "app"]
                got = self.delivered_ids()
                self.stat("idle_handover_checked")
                if got != want and len(got) < len(want):
                    law = self.cfg["chunk_law"]
                    self.violation = Violation(
                        "held-back", f"C03/frames-held-back-while-idle/law={law}/garbage={'Y' if self.cfg['garbage'] else 'N'}",
                        f"the stream ({self.stream_len} bytes) was received completely and the line is idle, but only "
                        f"{len(got)} of {len(want)} application frames were handed over (missing {[w for w in want if w not in got][:4]})")
                    self._stop("violation")
                    return
        if (self.cfg["corrupt"] and self.burst_done and self.follow_sent and self.n_corrupt and self.violation is None
                and self.peer.connected and self.at_rest() and not self.session_dropped
                and self.eut.connection_state > ConnectionState.DISCONNECTED_BROKEN_CONN):
            # everything has been received, the line is idle: the intact follow-up frames behind the damage have
            # been returned by the decoder NOW (not when the next bytes happen to arrive)
            conn = self.peer_conn()
            rx = conn.tr[1 - self.peer_side()] if conn is not None else None
            rd = getattr(getattr(rx, "protocol", None), "_stream_reader", None) if rx is not None else None
            if rd is not None and not len(rd._buffer):
                handed = {raw for (ev, kind, consumed, buflen, raw) in self.decodes if kind == "msg" and ev > self.last_fault_ev}
                held = [sp["seq"] for sp in self.follow if sp["frame"] not in handed]
                self.stat("idle_handover_checked")
                if held:
                    kinds = "+".join(sorted({k for k, _, _ in self.faults_applied})) or "none"
                    self.violation = Violation(
                        "held-back", f"C10/follow-up-frames-held-back-while-idle/faults={kinds}",
                        f"after {kinds}: the line is idle and everything was received, but intact follow-up frames {held[:5]} "
                        "have not been returned by the decoder (they would only come out when more bytes arrive)")
                    self._stop("violation")
                    return
        if self.cfg["corrupt"] and self.burst_done and not self.follow_sent and self.peer.connected:
            self.fire_family(["follow"])
        if self.burst_done and not self.final_sent and self.peer.connected:
            self.final_sent = True
            sp = dict(kind="app", id="FINAL", text="")
            self.final = sp
            self.send_spec(sp, "final")

    # ------------------------------------------------------------ corruption
    def apply_corruption(self, kind, pos, b):
        conn = self.peer_conn()
        s = self.peer_side()
        data = bytearray(conn.take_all(s))
        if not data:
            return
        pos = pos % len(data)
        if kind in ("subst", "subst_special"):
            if data[pos] == b:
                b = (b + 1) % 256
            data[pos] = b
        elif kind == "delete":
            del data[pos]
        elif kind in ("insert", "insert_special"):
            data.insert(pos, b)
        elif kind == "insert_nul":
            data.insert(pos, 0)
        elif kind == "dup":
            data.insert(pos, data[pos])
        self.n_corrupt += 1
        self.fault("corrupt_" + kind)
        self.faults_applied.append((kind, pos, b))
        self.last_fault_ev = self.rec("corrupt", kind, pos, b)
        if data:
            conn.q[s].append(bytes(data))
            conn.inflight[s] = len(data)

    def send_malformed(self, kind, salt):
        r = random.Random(salt)
        p = self.peer
        if kind.startswith("odd_"):
            # well-framed (BodyLength and CheckSum correct) but structurally odd: a regular member of the
            # sequence whose only demand on the decoder is that it neither raises nor blocks
            if kind == "odd_dup_tag":
                body = [("11", "ODD"), ("55", "A"), ("54", "1"), ("55", "B")]
                if r.random() < 0.3:
                    body = [("11", "ODD"), ("35", "8"), ("55", "A")]  # MsgType itself a second time
            elif kind == "odd_tag_after_group":
                body = [("11", "ODD"), ("55", "A"), ("454", "1"), ("455", "x"), ("456", "y"), ("55", "B")]
            elif kind == "odd_group_structure":
                body = r.choice([
                    [("11", "ODD"), ("453", "2"), ("55", "A")],
                    [("11", "ODD"), ("448", "p"), ("453", "1"), ("448", "q")],
                    [("11", "ODD"), ("555", "1"), ("600", "X"), ("539", "1"), ("524", "n"), ("804", "1"), ("545", "s"), ("600", "Y"), ("11", "Z")],
                    [("11", "ODD"), ("453", "1"), ("448", "p"), ("802", "1"), ("523", "s"), ("448", "q"), ("453", "1"), ("448", "r")],
                    [("453", "x"), ("453", "1"), ("453", "1")],
                ])
            elif kind == "odd_huge_number":
                # digit strings beyond what int() converts (CPython refuses more than 4300 digits) where the
                # decoder / session layer expects a number: tag, MsgSeqNum, NewSeqNo
                big = "1" * r.choice([19, 100, 4300, 4301, 6000])
                which = r.choice(["tag", "tag", "seq", "newseqno"])
                self.n_corrupt += 1
                self.n_malformed += 1
                self.fault("malformed_" + kind + "_" + which)
                self.faults_applied.append((kind, None, None))
                self.last_fault_ev = self.rec("malformed", kind, which, len(big))
                if which == "tag":
                    p.send("D", [("11", "ODD"), (big, "x"), ("55", "A")], spec={"odd": kind})
                elif which == "seq":
                    p.send("D", [("11", "ODD"), ("55", "A")], seq=big, count=False, spec={"odd": kind})
                else:
                    p.send("4", [("123", "Y"), ("36", big)], count=False, spec={"odd": kind})
                return
            else:
                body = [(r.choice(ODD_POOL), r.choice(["1", "2", "x", "", "Y"])) for _ in range(r.randint(1, 12))]
                body = [(t, v or "e") for t, v in body]
            self.n_corrupt += 1
            self.n_malformed += 1
            self.fault("malformed_" + kind)
            self.faults_applied.append((kind, None, None))
            self.last_fault_ev = self.rec("malformed", kind)
            p.send("D", body, spec={"odd": kind})
            return
        seq = p.next_out  # not consumed: a malformed frame is not part of the sequence
        base = dict(sender=p.comp_id, target=p.eut_comp_id, seq=seq)
        body = [("11", "BAD"), ("55", "ES")]
        if kind == "bodylen_alpha":
            fr = refframer.build("D", body, body_len="ab", **base)
        elif kind == "bodylen_neg":
            fr = refframer.build("D", body, body_len="-5", **base)
        elif kind == "bodylen_giant":
            # more digits than int() converts
            fr = refframer.build("D", body, body_len="1" * r.choice([4300, 4301, 6000]), **base)
        elif kind == "bodylen_huge":
            fr = refframer.build("D", body, body_len="99999999999", **base)
        elif kind == "cks_alpha":
            fr = refframer.build("D", body, cks="a1c", **base)
        elif kind == "tag_alpha":
            fr = refframer.build("D", body + [("x7y", "1")], **base)
            self.grammar_malformed.add(fr)
        elif kind == "tag_intlike":
            # self-consistent frame (BodyLength, CheckSum right) whose tag is something int() accepts but FIX does not
            fr = refframer.build("D", body + [(r.choice(["+44", " 44", "44 ", "4_4", "-0", "\t44", "+0044"]), "1")], **base)
            self.grammar_malformed.add(fr)
        elif kind == "no_equals":
            good = refframer.build("D", body, **base)
            i = good.find(b"\x0155=")
            fr = good[: i + 3] + good[i + 4:]
        elif kind == "empty_field":
            good = refframer.build("D", body, **base)
            i = good.find(b"\x0155=")
            fr = good[: i + 1] + good[i:]
        elif kind == "wrong_order":
            good = refframer.build("D", body, **base)
            f = good.split(b"\x01")
            f[1], f[2] = f[2], f[1]
            fr = b"\x01".join(f)
        elif kind == "truncated":
            good = refframer.build("D", body + [("58", "x" * r.randint(0, 60))], **base)
            fr = good[: r.randint(8, len(good) - 1)]
        elif kind == "wrong_begin":
            fr = refframer.build("D", body, begin=b"FIX.4.2", **base)
        elif kind == "hdr_value_alpha":
            # well-framed (BodyLength, CheckSum right) but a header value the session layer parses is not a number
            which = r.choice(["34", "34", "34nul", "36"])
            if which == "34":
                fr = refframer.build("D", body, **dict(base, seq=r.choice(["abc", "", "1x", "-", "+7", " 9"])))
            elif which == "34nul":
                fr = refframer.build("D", body, **dict(base, seq="\x00" + str(seq)))
            else:
                fr = refframer.build("4", [("123", "Y"), ("36", r.choice(["abc", "", "x1"]))], **base)
        else:
            fr = gen_garbage(r, r.randint(1, 200))
        self.n_corrupt += 1
        self.n_malformed += 1
        self.fault("malformed_" + kind)
        self.faults_applied.append((kind, None, None))
        self.last_fault_ev = self.rec("malformed", kind)
        self.peer.send_raw(fr, {"t": "malformed"})

    # ---------------------------------------------------------------- oracle
    def on_decode(self, buf, res, exc):
        super().on_decode(buf, res, exc)
        if exc is None:
            msg, consumed, raw = res
            if not (0 <= consumed <= len(buf)) and self.violation is None:
                self.violation = Violation(
                    "consumed-out-of-range",
                    "C10/consumed-out-of-range" if self.cfg["corrupt"] else "C03/consumed-out-of-range",
                    f"decode reported {consumed} bytes consumed of a {len(buf)}-byte buffer",
                )
                self._stop("violation")

    def converged(self):
        return True

    def judge(self):
        if self.cfg["corrupt"]:
            self.judge_c10()
        else:
            self.judge_c03()

    def delivered_ids(self):
        return [mid for (_, mid, _) in self.eut.delivered]

    def session_dropped_by_harness(self):
        return False

    def judge_c03(self):
        if not self.burst_done:
            # the Logon exchange is part of the stream: however it was cut into reads, a well-behaved peer's Logon
            # must have made the session ACTIVE (otherwise the run would silently judge nothing)
            if self.stop_reason == "settled" and self.eut.connection_state != ConnectionState.ACTIVE \
                    and not self.session_dropped_by_harness():
                law = self.cfg["chunk_law"]
                raise Violation("no-session", f"C03/session-not-established/law={law}/read_cap={self.cfg.get('read_cap', 0)}",
                                f"the peer's Logon never made the endpoint ACTIVE (state {self.eut.connection_state.name}, "
                                f"role {self.eut_role}, reads capped at {self.cfg.get('read_cap', 0) or 'no limit'} bytes)")
            return
        law = self.cfg["chunk_law"]
        ctx = f"law={law}/garbage={'Y' if self.cfg['garbage'] else 'N'}"
        if self.decode_errors:
            raise Violation("decode-raised", f"C03/decode-raised/{self.decode_errors[0][1]}/{ctx}",
                            f"Codec.decode(silent=True) raised {self.decode_errors[0][1]}")
        want = [sp["id"] for sp in self.plan if sp["kind"] == "app"]
        got = [m for m in self.delivered_ids() if m != "FINAL"]
        if got != want:
            missing = [w for w in want if w not in got]
            extra = [g for g in got if g not in want]
            dup = len(got) != len(set(got))
            clause = "frame-lost" if missing else ("duplicate" if dup else ("unknown" if extra else "reorder"))
            raise Violation(clause, f"C03/{clause}/{ctx}",
                            f"sent {len(want)} application frames, on_message saw {len(got)}; missing {missing[:4]} "
                            f"(chunk law {law}, cut index {self.cfg['cut_index']}, stream {self.stream_len} bytes)")
        if self.final_sent and "FINAL" not in self.delivered_ids():
            raise Violation("residue", f"C03/residue-blocks-next-frame/{ctx}",
                            "a valid frame sent after the stream was fully delivered never reached on_message")
        # replies: every TestRequest answered with its id
        hb = [d.get("112") for (_, _, d, _, _) in self.eut_writes() if d.get("35") == "0"]
        for sp in self.plan:
            if sp["kind"] == "tr" and sp["reqid"] not in hb:
                raise Violation("reply-missing", f"C03/testrequest-unanswered/{ctx}",
                                f"TestRequest {sp['reqid']} was not answered")
        # inbound journal: every frame stored under its number, byte for byte
        rows = self.journal.recover_messages(self.live(), MessageDirection.INBOUND, 0, 2**62)
        stored = set(rows)
        for sp in self.plan:
            if sp["frame"] not in stored:
                raise Violation("journal", f"C03/inbound-journal-row-missing-or-different/{ctx}",
                                f"frame 34={sp['seq']} is not in the inbound journal byte for byte")

    def judge_c10(self):
        if not self.burst_done:
            return
        kinds = "+".join(sorted({k for k, _, _ in self.faults_applied})) or "none"
        if self.decode_errors:
            ev, name, head = self.decode_errors[0]
            raise Violation("decode-raised", f"C10/decode-raised/{name}",
                            f"Codec.decode(silent=True) raised {name} on {head[:60]!r} (faults: {kinds})")
        sent = {s["frame"] for s in self.peer.sent}
        deferred = None
        for (ev, kind, consumed, buflen, raw) in self.decodes:
            if kind != "msg":
                continue
            why = refframer.consistency(raw)
            if why is not None:
                nul = "/nul-inserted" if b"\x00" in raw else ""
                v = Violation("inconsistent-frame-accepted", f"C10/inconsistent-frame-accepted/{why}{nul}",
                              f"decoder returned a message whose {why} is not consistent with its bytes "
                              f"(faults: {kinds}): {raw[:90]!r}")
                if why != "bodylength":
                    raise v
                # BodyLength is a listed known finding (pinned by the repo's own tests): judged
                # last so that it masks no other clause of the same run
                if deferred is None:
                    deferred = v
            if raw in self.grammar_malformed:
                raise Violation("malformed-frame-accepted", "C10/non-numeric-tag-accepted",
                                f"decoder returned a frame whose tag is not a number: {raw[-60:]!r}")
            if raw not in sent:
                self.probe("accepted_consistent_frame_never_sent_as_such")
        dead = self.dead_tasks()
        if dead:
            raise Violation("reader-dead", f"C10/reader-task-dead/{dead[0][1][:40]}",
                            f"library task died: {dead[0]}")
        # bounded liveness: of the follow-up frames at least the last 4 are handed over
        if self.follow_sent and self.n_corrupt:
            handed = {raw for (ev, kind, consumed, buflen, raw) in self.decodes if kind == "msg" and ev > self.last_fault_ev}
            tail = self.follow[-4:]
            missing = [sp["seq"] for sp in tail if sp["frame"] not in handed]
            if missing and self.eut.connection_state > ConnectionState.DISCONNECTED_BROKEN_CONN:
                raise Violation("blocked", f"C10/follow-up-frames-blocked/faults={kinds}",
                                f"after {kinds}, follow-up frames {missing} were never decoded although the link is up")
            if self.eut.connection_state > ConnectionState.DISCONNECTED_BROKEN_CONN and not self.session_dropped:
                # the follow-up frames are intact and lie entirely behind the damage: a decoder that
                # resynchronises on the frame-start marker hands every one of them over
                lost = [sp["seq"] for sp in self.follow if sp["frame"] not in handed]
                if lost:
                    raise Violation("neighbour-lost", f"C10/intact-frame-after-damage-not-decoded/faults={kinds}",
                                    f"after {kinds}, intact follow-up frames {lost} (of {len(self.follow)}) were never "
                                    "returned by the decoder although the link stayed up")
            if self.final_sent and self.final["frame"] not in handed \
                    and self.eut.connection_state > ConnectionState.DISCONNECTED_BROKEN_CONN:
                raise Violation("blocked", f"C10/final-frame-blocked/faults={kinds}",
                                "a valid frame sent after everything else was never decoded")
        if deferred is not None:
            raise deferred

    def teardown(self):
        super().teardown()

    def abstract_state(self):
        conn = self.peer_conn()
        return (int(self.eut.connection_state), self.burst_done, self.follow_sent,
                min(self.n_corrupt, 3), min(len(self.decodes), 20),
                bool(conn and conn.inflight[self.peer_side()] > 0) if conn else False)

    def sample(self):
        d = super().sample()
        d["plan"] = [(sp["kind"], sp.get("id") or sp.get("reqid"), len(sp.get("frame", b""))) for sp in self.plan]
        d["faults"] = self.faults_applied
        d["delivered"] = self.delivered_ids()[:30]
        d["actions"] = self.out_actions[:25]
        return d
