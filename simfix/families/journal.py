"""The journal machine: operation histories on a file-backed ``Journaler`` against a map.

Shared by C08 (crash at every statement/commit boundary, crash = file snapshot) and
C13 (fault-free, strict step-by-step comparison, close + reopen as the only event).
Nothing here uses asyncio or the simulator core.

A *history* is a JSON list of operations::

    ["load", hid, target, sender]            create_or_load -> defines session handle `hid`
    ["persist", hid, "IN"|"OUT", seq, hex]   persist_msg(bytes.fromhex(hex), handle, direction)
    ["set", hid, out|null, in|null]          set_seq_num(handle[, next_num_out][, next_num_in])
    ["reset", hid]                           set_seq_num(handle, next_num_in=1, next_num_out=1)
    ["get", hid, dir, seq]                   recover_msg
    ["range", hid, dir, start, end(, "ss"|"si"|"is")]  recover_messages (optionally with numeric-string bounds)
    ["all", [hid,..]|null, dir|null, "obj"|"key"]   get_all_msgs
    ["sessions"]                             sessions()
    ["reopen"]                               del journaler; Journaler(same file)

An operation whose handle was never defined (because a minimiser dropped the ``load``)
is skipped.  The replay trace is ``{"ops": [...], "crash": <crash point or null>}``.
"""
import collections
import hashlib
import os
import re
import random
import shutil
import sqlite3 as REAL_SQLITE3
import tempfile
import time
import weakref

import asyncfix.journaler as jmod
from asyncfix.message import MessageDirection

DIRS = {"IN": MessageDirection.INBOUND, "OUT": MessageDirection.OUTBOUND}
DVAL = {"IN": MessageDirection.INBOUND.value, "OUT": MessageDirection.OUTBOUND.value}
DNAME = {v: k for k, v in DVAL.items()}
BIG = 2**62
EVERYTHING = 2**63 - 1  # upper bound of SQLite's INTEGER: a range query up to here returns every row
MUTATING_KINDS = ("load", "persist", "set", "reset")
READ_KINDS = ("get", "range", "all", "sessions")


class HarnessError(Exception):
    """The harness (not the library) is wrong; the runner turns this into exit 2."""


# --------------------------------------------------------------------------- dirs
_DIR_COUNTER = [0]


def make_run_dir():
    """Per-run directory, name derived from pid + counter only."""
    _DIR_COUNTER[0] += 1
    base = "/dev/shm" if os.path.isdir("/dev/shm") and os.access("/dev/shm", os.W_OK) else tempfile.gettempdir()
    if _DIR_COUNTER[0] == 1:
        # first use in this process: sweep directories left behind by worker processes that were terminated
        # in the middle of a run (their pid is gone)
        try:
            for name in os.listdir(base):
                parts = name.split("-")
                if name.startswith("simfix-journal-") and len(parts) == 4 and parts[2].isdigit() \
                        and not os.path.exists("/proc/" + parts[2]):
                    shutil.rmtree(os.path.join(base, name), ignore_errors=True)
        except OSError:
            pass
    path = os.path.join(base, "simfix-journal-%d-%d" % (os.getpid(), _DIR_COUNTER[0]))
    if os.path.exists(path):
        shutil.rmtree(path, ignore_errors=True)
    os.mkdir(path)
    return path


# ---------------------------------------------------------------------- generator
PAIR_POOLS = (
    (("A", "B"), ("B", "A"), ("A", "A")),
    (("TARGET", "SENDER"), ("SENDER", "TARGET"), ("TARGET", "OTHER")),
    (("a", "B"), ("B", "a"), ("A", "b")),
    (("Ä€", "b'\";--"), ("b'\";--", "Ä€"), ("", "x y")),
)
_PREFIX_ALPHABET = bytes(b for b in range(256) if b != 1)


def make_msg(rng, seq, uid, big=False):
    """Bytes that carry ``\\x0134=<seq>\\x01`` as their first tag-34 and are unique per uid."""
    if rng.random() < 0.5:
        prefix = b"8=FIX.4.4\x019=%d\x0135=D" % rng.randint(0, 999)
    else:
        prefix = bytes(rng.choice(_PREFIX_ALPHABET) for _ in range(rng.randint(0, 8)))
    num = str(seq)
    if rng.random() < 0.05:
        num = "0" * rng.randint(1, 3) + num
    tail = bytes(rng.randrange(256) for _ in range(rng.randint(0, 14)))
    if rng.random() < 0.08:
        tail += b"\x0143=Y\x01122=20240101-00:00:00\x01"  # the stored bytes of a retransmission: a message like any other
    if rng.random() < 0.06:
        # a second SOH-delimited 34=<n> further inside the message (an embedded frame in a data field): the message
        # is filed under its FIRST MsgSeqNum
        tail += b"\x01213=<x>\x0134=" + str(rng.choice((1, 2, 3, seq + 1, seq + 7))).encode() + b"\x01</x>"
    if big:
        # several database pages per message: with a small page cache one transaction spills to the file
        tail += bytes(rng.randrange(256) for _ in range(8)) * rng.choice((0, 10, 80, 200))
    return prefix + b"\x0134=" + num.encode() + b"\x01" + (b"58=u%d|" % uid) + tail


def minimal_msg(seq, uid):
    return b"\x0134=%d\x01u%d" % (seq, uid)


def make_config(seed, tier, index, check_id):
    rng = random.Random(seed ^ 0x5A17C0DE)
    cfg = dict(seed=seed, tier=tier, check=check_id, family="journal")
    if check_id == "C08":
        cfg["max_ops"] = 12 if tier == "quick" else 25
        cfg["crash_cap"] = 128 if tier == "quick" else 256
        cfg["avoid_set_seq_num"] = rng.random() < 0.30
        cfg["no_reopen"] = False
        cfg["real_kill"] = bool(tier == "thorough" and index < 20)
        # a run stops at its first violation; the normal-close clause is a sentence of its
        # own in the property, so half of the runs evaluate the normal closes first
        cfg["closes_first"] = rng.random() < 0.50
        # tuning knob (buggify): 512-byte pages and a one-page cache, so that a transaction of a few messages
        # already spills dirty pages into the database file before it commits (SQLite's compile-time defaults
        # differ between builds; the journal must be crash-safe under any of them)
        cfg["small_cache"] = rng.random() < 0.35
    else:
        cfg["max_ops"] = 40
        cfg["avoid_set_seq_num"] = rng.random() < 0.30
        cfg["no_reopen"] = rng.random() < 0.20
        # avoidance knob for the sessions() next-out finding (DESIGN 5): when set, the
        # next-out number reported by sessions() is not compared (everything else is)
        cfg["lenient_sessions_next_out"] = rng.random() < 0.50
    return cfg


def generate(cfg):
    """Seeded history; depends on cfg only."""
    rng = random.Random(cfg["seed"])
    c08 = cfg.get("check") == "C08"
    n_ops = rng.randint(3, max(3, cfg["max_ops"]))
    pool = list(rng.choice(PAIR_POOLS))
    n_pairs = rng.choice((1, 2, 2, 3, 3))
    if rng.random() < 0.5:
        pool = pool[:n_pairs]  # mirror images first
    else:
        rng.shuffle(pool)
        pool = pool[:n_pairs]
    w = dict(load=10.0, persist=40.0, set=9.0, reset=3.0, get=5.0, range=9.0, all=4.0, sessions=3.0, reopen=7.0)
    for k in sorted(w):
        w[k] *= rng.choice((0.3, 1.0, 1.0, 1.0, 2.5))
    if c08:
        for k in READ_KINDS:
            w[k] *= 0.4
    if cfg.get("avoid_set_seq_num"):
        w["set"] = w["reset"] = 0.0
    if cfg.get("no_reopen"):
        w["reopen"] = 0.0
    kinds = sorted(w)
    model = Model()
    ops = []
    next_hid = 0
    uid = 0
    while len(ops) < n_ops:
        have = sorted(model.handles)
        if not have:
            kind = "load" if rng.random() < 0.85 else rng.choice(("sessions", "all", "reopen"))
            if kind == "reopen" and cfg.get("no_reopen"):
                kind = "load"
        else:
            kind = rng.choices(kinds, [w[k] for k in kinds])[0]
        if kind == "load":
            t, s = rng.choice(pool)
            op = ["load", next_hid, t, s]
            next_hid += 1
        elif kind == "persist":
            hid = rng.choice(have)
            pair = model.handles[hid][0]
            d = rng.choice(("IN", "OUT"))
            nxt = model.pairs[pair][0 if d == "IN" else 1]
            existing = sorted(model.rows.get((pair, d), ()))
            r = rng.random()
            if r < 0.58:
                seq = nxt
            elif r < 0.70 and existing:
                seq = rng.choice(existing)  # duplicate
            elif r < 0.80:
                seq = nxt + rng.randint(1, 5)  # sparse
            elif r < 0.89 and nxt > 1:
                seq = rng.randint(1, nxt - 1)  # descending (maybe a hole, maybe a duplicate)
            elif r < 0.95:
                seq = rng.choice((2**31, 2**53, 2**62 - 8)) + rng.randint(0, 6)  # large
            else:
                seq = rng.randint(1, 3)
            uid += 1
            op = ["persist", hid, d, seq, make_msg(rng, seq, uid, bool(cfg.get("small_cache"))).hex()]
        elif kind == "set":
            hid = rng.choice(have)
            pair = model.handles[hid][0]
            vals = []
            for d in ("OUT", "IN"):
                if rng.random() < 0.35:
                    vals.append(None)
                    continue
                nxt = model.pairs[pair][0 if d == "IN" else 1]
                existing = sorted(model.rows.get((pair, d), ()))
                r = rng.random()
                if r < 0.2:
                    v = nxt
                elif r < 0.5 and existing:
                    v = rng.choice(existing) + rng.choice((0, 0, 1))  # truncates
                elif r < 0.6:
                    v = 1
                elif r < 0.75 and nxt > 1:
                    v = rng.randint(1, nxt - 1)
                elif r < 0.93:
                    v = nxt + rng.randint(1, 5)
                else:
                    v = rng.choice((2**31, 2**62 - 8)) + rng.randint(0, 6)
                vals.append(v)
            op = ["set", hid, vals[0], vals[1]]
        elif kind == "reset":
            op = ["reset", rng.choice(have)]
        elif kind == "get":
            hid = rng.choice(have)
            pair = model.handles[hid][0]
            d = rng.choice(("IN", "OUT"))
            existing = sorted(model.rows.get((pair, d), ()))
            other = sorted(model.rows.get((pair, "OUT" if d == "IN" else "IN"), ()))
            r = rng.random()
            if r < 0.6 and existing:
                seq = rng.choice(existing)
            elif r < 0.8 and other:
                seq = rng.choice(other)
            else:
                seq = rng.choice((0, 1, 2, 5, 2**31, BIG))
            op = ["get", hid, d, seq]
        elif kind == "range":
            hid = rng.choice(have)
            pair = model.handles[hid][0]
            d = rng.choice(("IN", "OUT"))
            existing = sorted(model.rows.get((pair, d), ()))
            pts = [0, 1, 2, model.pairs[pair][0 if d == "IN" else 1]]
            for e in existing:
                pts.extend((e - 1, e, e + 1))
            r = rng.random()
            if r < 0.55:
                a, b = sorted((rng.choice(pts), rng.choice(pts)))
            elif r < 0.70:
                b, a = sorted((rng.choice(pts), rng.choice(pts)))  # inverted (or equal)
            elif r < 0.92:
                a, b = rng.choice(pts), rng.choice((2**31, BIG, 2**63 - 1))  # open-ended
            else:
                a, b = rng.choice((-1, -5)), rng.choice(pts)
            op = ["range", hid, d, a, b]
            if rng.random() < 0.2:
                # the bounds are typed `int | str`: numeric strings (both, or one of them)
                op.append(rng.choice(("ss", "ss", "si", "is")))
        elif kind == "all":
            r = rng.random()
            if r < 0.35 or not have:
                hs = None
            elif r < 0.40:
                hs = []
            else:
                hs = [rng.choice(have) for _ in range(rng.randint(1, 3))]
            d = rng.choice((None, None, "IN", "OUT"))
            op = ["all", hs, d, rng.choice(("obj", "key"))]
        elif kind == "sessions":
            op = ["sessions"]
        else:
            op = ["reopen"]
        ops.append(op)
        if model.can_apply(op):
            model.apply(op)
            if op[0] == "load" and model.pairs[(op[2], op[3])][2] is None:
                model.pairs[(op[2], op[3])][2] = len(model.pairs)  # placeholder key while generating
    return ops


def shape_digest(ops):
    h = hashlib.sha1()
    for op in ops:
        k = op[0]
        d = op[2] if k in ("persist", "get", "range") else (op[2] if k == "all" else "")
        h.update(("%s:%s;" % (k, d)).encode())
    return h.hexdigest()[:20]


def count_mutating(ops):
    return sum(1 for op in ops if op[0] in MUTATING_KINDS)


# -------------------------------------------------------------------------- model
class Model:
    """Map (pair, direction, seq) -> bytes plus two counters per pair, plus the fields of
    every session object handed out (set_seq_num reads and writes them)."""

    def __init__(self):
        self.pairs = {}  # (t, s) -> [next_in, next_out, key]
        self.rows = {}  # ((t, s), dname) -> {seq: bytes}
        self.handles = {}  # hid -> [pair, next_in, next_out]
        self.origin = {}  # bytes -> (pair, dname, seq) for every accepted store, kept for ever
        self.probes = collections.Counter()
        self.pre_sets = None  # content before the trailing run of set/reset operations
        self.sets_pending = 0  # number of set/reset operations in that trailing run
        self.reopened = False
        self._content = ()
        self._dirty = False

    # -- helpers
    def can_apply(self, op):
        k = op[0]
        if k in ("persist", "set", "reset", "get", "range"):
            return op[1] in self.handles
        if k == "all" and op[1]:
            return all(h in self.handles for h in op[1])
        return True

    def content(self):
        if self._dirty:
            out = []
            for pair in sorted(self.pairs):
                p = self.pairs[pair]
                ri = self.rows.get((pair, "IN"), {})
                ro = self.rows.get((pair, "OUT"), {})
                out.append((pair[0], pair[1], p[0], p[1],
                            tuple(sorted(ri.items())), tuple(sorted(ro.items()))))
            self._content = tuple(out)
            self._dirty = False
        return self._content

    def abstract(self):
        t = [len(self.pairs), self.sets_pending > 0]
        for pair in sorted(self.pairs):
            p = self.pairs[pair]
            t.append((min(p[0], 4), min(p[1], 4),
                      min(len(self.rows.get((pair, "IN"), ())), 3),
                      min(len(self.rows.get((pair, "OUT"), ())), 3)))
        return hash(tuple(t))

    def _mark_set(self):
        if self.sets_pending == 0:
            self.pre_sets = self.content()
        self.sets_pending += 1

    def _mark_commit(self):
        self.pre_sets = None
        self.sets_pending = 0

    # -- operations: return the expected normalised result
    def apply(self, op):
        k = op[0]
        pr = self.probes
        if k == "load":
            pair = (op[2], op[3])
            new = pair not in self.pairs
            if new:
                self.content()
                self.pairs[pair] = [1, 1, None]
                self._dirty = True
                self._mark_commit()
                if (pair[1], pair[0]) in self.pairs and pair[0] != pair[1]:
                    pr["mirror_sessions_used"] += 1
            else:
                pr["load_existing_session"] += 1
            p = self.pairs[pair]
            self.handles[op[1]] = [pair, p[0], p[1]]
            if self.reopened:
                pr["load_after_reopen"] += 1
            return ("ok", p[2], pair[0], pair[1], p[0], p[1])
        if k == "persist":
            h = self.handles[op[1]]
            pair, d, seq = h[0], op[2], op[3]
            rows = self.rows.setdefault((pair, d), {})
            if seq in rows:
                pr["dup_store"] += 1
                return ("exc", "DuplicateSeqNoError")
            self.content()
            idx = 0 if d == "IN" else 1
            cur = self.pairs[pair][idx]
            if seq > cur:
                pr["sparse_seq_store"] += 1
            elif seq < cur:
                pr["descending_seq_store"] += 1
            if seq >= 2**31:
                pr["large_seq_store"] += 1
            msg = bytes.fromhex(op[4])
            rows[seq] = msg
            self.origin[msg] = (pair, d, seq)
            self.pairs[pair][idx] = seq + 1
            self._dirty = True
            self._mark_commit()
            return ("ok",)
        if k in ("set", "reset"):
            h = self.handles[op[1]]
            pair = h[0]
            if k == "reset":
                out, inn = 1, 1
                pr["reset"] += 1
            else:
                out, inn = op[2], op[3]
                if out is None or inn is None:
                    pr["set_seq_num_uses_session_object_field"] += 1
                    p = self.pairs[pair]
                    if (out is None and h[2] != p[1]) or (inn is None and h[1] != p[0]):
                        pr["set_seq_num_with_stale_session_object"] += 1
                out = h[2] if out is None else out
                inn = h[1] if inn is None else inn
            self._mark_set()
            h[1], h[2] = inn, out
            self.pairs[pair][0], self.pairs[pair][1] = inn, out
            removed = 0
            for d, lim in (("IN", inn), ("OUT", out)):
                rows = self.rows.get((pair, d))
                if rows:
                    for s in [s for s in rows if s >= lim]:
                        del rows[s]
                        removed += 1
            if removed:
                pr["set_seq_num_truncated_rows"] += 1
            self._dirty = True
            return ("ok", inn, out)
        if k == "get":
            h = self.handles[op[1]]
            m = self.rows.get((h[0], op[2]), {}).get(op[3])
            pr["recover_msg_hit" if m is not None else "recover_msg_miss"] += 1
            return ("ok", m)
        if k == "range":
            h = self.handles[op[1]]
            rows = self.rows.get((h[0], op[2]), {})
            a, b = op[3], op[4]
            if a > b:
                pr["inverted_range_query"] += 1
            if b >= 2**31:
                pr["open_ended_range_query"] += 1
            res = [rows[s] for s in sorted(rows) if a <= s <= b]
            if not res:
                pr["empty_range_result"] += 1
            elif len(res) < len(rows):
                pr["range_query_partial_result"] += 1
            return ("ok", res)
        if k == "all":
            hs, d = op[1], op[2]
            pairs = None
            if hs:
                pairs = set(self.handles[h][0] for h in hs)
                pr["get_all_msgs_session_filter"] += 1
            elif hs is not None:
                pr["get_all_msgs_empty_session_list"] += 1
            if d is not None:
                pr["get_all_msgs_direction_filter"] += 1
            res = []
            for (pair, dn), rows in self.rows.items():
                if (pairs is None or pair in pairs) and (d is None or d == dn):
                    key = self.pairs[pair][2]
                    for s, m in rows.items():
                        res.append((s, m, DVAL[dn], key))
            res.sort()
            return ("ok", res)
        if k == "sessions":
            return ("ok", sorted((t, s, p[2], p[0], p[1]) for (t, s), p in self.pairs.items()))
        if k == "reopen":
            self.reopened = True
            pr["close_reopen"] += 1
            if self.sets_pending:
                pr["reopen_directly_after_set_seq_num"] += 1
            return ("ok",)
        raise HarnessError("unknown operation %r" % (op,))


# ----------------------------------------------------------------------- executor
def _call(fn, *a, **kw):
    """Run a library call; an exception becomes ("exc", type name)."""
    try:
        return True, fn(*a, **kw)
    except Exception as e:  # noqa: BLE001 - the type is the observation
        return False, ("exc", type(e).__name__)


class Executor:
    """Applies operations to the real Journaler and normalises what came back."""

    def __init__(self, path, on_closed=None):
        self.path = path
        self.on_closed = on_closed
        self.h = {}
        self.j = jmod.Journaler(path)

    def close(self):
        j = self.j
        self.j = None
        if j is not None:
            w = weakref.ref(j)
            del j
            if w() is not None:
                raise HarnessError("Journaler object still referenced after del: no normal close happened")

    def apply(self, op):
        k = op[0]
        if k == "reopen":
            return self._reopen()
        j = self.j
        if k == "load":
            ok, s = _call(j.create_or_load, op[2], op[3])
            if not ok:
                return s
            self.h[op[1]] = s
            return ("ok", s.key, s.target_comp_id, s.sender_comp_id, s.next_num_in, s.next_num_out)
        if k == "persist":
            ok, r = _call(j.persist_msg, bytes.fromhex(op[4]), self.h[op[1]], DIRS[op[2]])
            return ("ok",) if ok else r
        if k == "set":
            s = self.h[op[1]]
            kw = {}
            if op[2] is not None:
                kw["next_num_out"] = op[2]
            if op[3] is not None:
                kw["next_num_in"] = op[3]
            ok, r = _call(j.set_seq_num, s, **kw)
            return ("ok", s.next_num_in, s.next_num_out) if ok else r
        if k == "reset":
            s = self.h[op[1]]
            ok, r = _call(j.set_seq_num, s, next_num_in=1, next_num_out=1)
            return ("ok", s.next_num_in, s.next_num_out) if ok else r
        if k == "get":
            ok, r = _call(j.recover_msg, self.h[op[1]], DIRS[op[2]], op[3])
            return ("ok", r) if ok else r
        if k == "range":
            a, b = op[3], op[4]
            if len(op) > 5:
                a = str(a) if op[5][0] == "s" else a
                b = str(b) if op[5][1] == "s" else b
            ok, r = _call(j.recover_messages, self.h[op[1]], DIRS[op[2]], a, b)
            return ("ok", r) if ok else r
        if k == "all":
            hs = op[1]
            if hs is None:
                arg = None
            elif op[3] == "key":
                arg = [self.h[x].key for x in hs]
            else:
                arg = [self.h[x] for x in hs]
            ok, r = _call(j.get_all_msgs, arg, None if op[2] is None else DIRS[op[2]])
            return ("ok", r) if ok else r
        if k == "sessions":
            ok, r = _call(j.sessions)
            if not ok:
                return r
            out = []
            for key, s in r.items():
                out.append((s.target_comp_id, s.sender_comp_id, s.key, s.next_num_in, s.next_num_out, key))
            out.sort(key=lambda x: (x[0], x[1]))
            return ("ok", out)
        raise HarnessError("unknown operation %r" % (op,))

    def _reopen(self):
        self.close()
        if self.on_closed is not None:
            self.on_closed()
        ok, r = _call(jmod.Journaler, self.path)
        if not ok:
            return r
        self.j = r
        return ("ok",)


# -------------------------------------------------------------------- observation
def observe(j):
    """Complete observable content of a journal, through its public API only.

    Returns ("ok", content, sessions_view, problems, ranges) or ("raises", exc type, api, repr).
    `content` takes rows (with their numbers) from get_all_msgs(), `ranges` holds what
    recover_messages returned over the whole number range per (pair, direction).
    Existing pairs are taken from sessions(); counters from create_or_load on those
    pairs (which loads, never creates, a listed pair).
    """
    at = "sessions"
    try:
        sess = j.sessions()
        at = "get_all_msgs"
        allrows = j.get_all_msgs()
        bykey = {}
        for seq, msg, d, key in allrows:
            bykey.setdefault((key, d), []).append((seq, msg))
        content = []
        view = []
        problems = []
        ranges = {}
        for pair in sorted(sess):
            so = sess[pair]
            at = "create_or_load"
            lo = j.create_or_load(pair[0], pair[1])
            if (so.target_comp_id, so.sender_comp_id) != pair or (lo.target_comp_id, lo.sender_comp_id) != pair:
                problems.append(("session-compids-differ-from-listing-key", repr(pair)))
            if so.key != lo.key:
                problems.append(("sessions-key-differs-from-create_or_load", "%r: %r vs %r" % (pair, so.key, lo.key)))
            view.append((pair[0], pair[1], so.key, so.next_num_in, so.next_num_out))
            rows = []
            at = "recover_messages"
            for dn in ("IN", "OUT"):
                msgs = j.recover_messages(lo, DIRS[dn], -EVERYTHING, EVERYTHING)
                ranges[(pair, dn)] = msgs
                ga = sorted(bykey.pop((lo.key, DVAL[dn]), ()))
                if [m for _, m in ga] != msgs:
                    problems.append(("get_all_msgs-disagrees-with-range-query",
                                     "%r %s: get_all_msgs %r, recover_messages %r" % (pair, dn, ga, msgs)))
                rows.append(tuple(ga))
            content.append((pair[0], pair[1], lo.next_num_in, lo.next_num_out, rows[0], rows[1]))
        if bykey:
            problems.append(("rows-of-unlisted-session", repr(sorted(bykey)[:3])))
        return ("ok", tuple(content), tuple(view), problems, ranges)
    except Exception as e:  # noqa: BLE001
        return ("raises", type(e).__name__, at, repr(e)[:200])


def observe_file(path):
    """Open `path` with a fresh Journaler on the REAL sqlite3 module and observe it."""
    if jmod.sqlite3 is not REAL_SQLITE3:
        raise HarnessError("observe_file called while the sqlite3 shim is installed")
    try:
        j = jmod.Journaler(path)
    except Exception as e:  # noqa: BLE001
        return ("raises", type(e).__name__, "constructor", repr(e)[:200])
    try:
        return observe(j)
    finally:
        del j


def diff_content(got, exp):
    """First differences between two contents: list of (what, detail)."""
    g = {(c[0], c[1]): c for c in got}
    e = {(c[0], c[1]): c for c in exp}
    out = []
    for pair in sorted(set(g) | set(e)):
        if pair not in g:
            out.append(("pairs", "missing", pair, None))
        elif pair not in e:
            out.append(("pairs", "extra", pair, None))
        else:
            a, b = g[pair], e[pair]
            if a[2] != b[2]:
                out.append(("counter", "in", pair, (a[2], b[2])))
            if a[3] != b[3]:
                out.append(("counter", "out", pair, (a[3], b[3])))
            for i, dn in ((4, "IN"), (5, "OUT")):
                if a[i] != b[i]:
                    sa, sb = set(a[i]), set(b[i])
                    missing, extra = sorted(sb - sa), sorted(sa - sb)
                    out.append(("rows", "missing" if missing else "extra", pair, (dn, missing[:2], extra[:2])))
    return out


def short(x, n=160):
    r = repr(x)
    return r if len(r) <= n else r[: n - 3] + "..."


# ------------------------------------------------------------------ C13 (strict)
def _viol(clause, sig, text):
    return dict(clause=clause, signature=sig, text=text)


def classify_list(got, exp, model, pair, dn, lo, hi):
    """Name what is wrong with a range-query result."""
    if not isinstance(got, list) or any(not isinstance(m, bytes) for m in got):
        return "not-a-list-of-bytes"
    if sorted(got) == sorted(exp):
        return "not-ascending"
    expc = collections.Counter(exp)
    gotc = collections.Counter(got)
    for m in got:
        if gotc[m] > expc[m]:
            o = model.origin.get(m)
            if o is None:
                return "altered-or-unknown-bytes"
            if o[0] != pair:
                return "message-of-another-session"
            if o[1] != dn:
                return "message-of-other-direction"
            if not (lo <= o[2] <= hi):
                return "outside-bounds"
            if expc[m] > 0:
                return "message-returned-twice"
            return "removed-or-replaced-message-returned"
    return "stored-message-missing"


def compare_result(op, exp, got, model, cfg):
    """Return value / exception of one operation against the model (C13)."""
    k = op[0]
    if got[0] == "exc" and exp[0] != "exc":
        name = {"load": "create_or_load", "persist": "store", "set": "set_seq_num", "reset": "set_seq_num",
                "get": "recover_msg", "range": "range-query", "all": "get_all_msgs", "sessions": "sessions",
                "reopen": "reopen"}[k]
        return _viol("api-total", "C13/%s-raises/%s" % (name, got[1]), "%s raised %s" % (short(op), got[1]))
    if k == "load":
        _, key, t, s, nin, nout = got
        pair = (op[2], op[3])
        known = exp[1]
        if (t, s) != pair:
            return _viol("load", "C13/create_or_load-wrong/compids", "%s returned session for %r" % (short(op), (t, s)))
        if known is None:
            used = [p[2] for p in model.pairs.values() if p[2] is not None]
            if key in used or key is None:
                return _viol("load", "C13/create_or_load-wrong/key-collides",
                             "new pair %r got key %r already used (%r)" % (pair, key, used))
        elif key != known:
            return _viol("load", "C13/create_or_load-wrong/key-changed", "pair %r key %r, was %r" % (pair, key, known))
        if nin != exp[4]:
            return _viol("load", "C13/create_or_load-wrong/next-in", "pair %r next_in %r, model %r" % (pair, nin, exp[4]))
        if nout != exp[5]:
            return _viol("load", "C13/create_or_load-wrong/next-out",
                         "pair %r next_out %r, model %r" % (pair, nout, exp[5]))
        return None
    if k == "persist":
        if exp[0] == "exc":
            if got[0] != "exc":
                return _viol("dup", "C13/dup-store-not-rejected", "%s stored a number twice without error" % short(op))
            if got[1] != exp[1]:
                return _viol("dup", "C13/dup-store-wrong-error/%s" % got[1], "%s raised %s" % (short(op), got[1]))
        return None
    if k in ("set", "reset"):
        if got != exp:
            return _viol("set", "C13/set_seq_num-session-object-fields-wrong",
                         "%s left session object (in,out)=%r, model %r" % (short(op), got[1:], exp[1:]))
        return None
    if k == "get":
        if got[1] != exp[1]:
            h = model.handles[op[1]]
            g = [] if got[1] is None else [got[1]]
            e = [] if exp[1] is None else [exp[1]]
            why = classify_list(g, e, model, h[0], op[2], op[3], op[3]) if isinstance(got[1], (bytes, type(None))) else "not-bytes"
            return _viol("range", "C13/recover_msg-wrong/" + why, "%s returned %s, model %s" % (short(op), short(got[1]), short(exp[1])))
        return None
    if k == "range":
        if got[1] != exp[1]:
            h = model.handles[op[1]]
            why = classify_list(got[1], exp[1], model, h[0], op[2], op[3], op[4])
            kind = "inverted" if op[3] > op[4] else ("open-ended" if op[4] >= 2**31 else "bounded")
            return _viol("range", "C13/range-query-wrong/%s/bounds=%s" % (why, kind),
                         "%s returned %s, model %s" % (short(op), short(got[1]), short(exp[1])))
        return None
    if k == "all":
        g = got[1]
        if not isinstance(g, list) or any(not (isinstance(r, tuple) and len(r) == 4) for r in g):
            return _viol("all", "C13/get_all_msgs-wrong/tuple-shape", "%s returned %s" % (short(op), short(g)))
        try:
            gs = sorted(g)
        except TypeError:
            return _viol("all", "C13/get_all_msgs-wrong/tuple-shape", "%s returned %s" % (short(op), short(g)))
        if gs != exp[1]:
            es = set(exp[1])
            why = "row-missing"
            fkeys = None if not op[1] else set(model.pairs[model.handles[x][0]][2] for x in op[1])
            for r in gs:
                if r not in es:
                    if fkeys is not None and r[3] not in fkeys:
                        why = "session-filter-ignored"
                    elif op[2] is not None and r[2] != DVAL[op[2]]:
                        why = "direction-filter-ignored"
                    elif gs.count(r) > 1:
                        why = "row-twice"
                    else:
                        why = "unexpected-row"
                    break
            return _viol("all", "C13/get_all_msgs-wrong/" + why, "%s returned %s, model %s" % (short(op), short(gs), short(exp[1])))
        return None
    if k == "sessions":
        g = got[1]
        for row in g:
            if row[5] != (row[0], row[1]):
                return _viol("sessions", "C13/sessions-wrong/dict-key-differs-from-session",
                             "key %r holds session %r" % (row[5], row[:2]))
        gp = [(r[0], r[1]) for r in g]
        ep = [(r[0], r[1]) for r in exp[1]]
        if gp != ep:
            why = "pair-missing" if set(ep) - set(gp) else "unknown-pair"
            return _viol("sessions", "C13/sessions-wrong/" + why, "sessions() lists %r, model %r" % (gp, ep))
        for r, e in zip(g, exp[1]):
            if r[2] != e[2]:
                return _viol("sessions", "C13/sessions-key-differs-from-create_or_load",
                             "%r: sessions() key %r, create_or_load gave %r" % (r[:2], r[2], e[2]))
            if r[3] != e[3]:
                return _viol("sessions", "C13/sessions-next-in-differs-from-create_or_load",
                             "%r: sessions() next_in %r, create_or_load/model %r" % (r[:2], r[3], e[3]))
            if r[4] != e[4] and not cfg.get("lenient_sessions_next_out"):
                return _viol("sessions", "C13/sessions-next-out-differs-from-create_or_load",
                             "%r: sessions() next_out %r, create_or_load/model %r" % (r[:2], r[4], e[4]))
        return None
    return None


def compare_observation(op, obs, model, before, pre_sets, sets_pending, was_dup, cfg):
    """Complete observable content after one operation against the model (C13)."""
    k = op[0]
    if obs[0] == "raises":
        return _viol("api-total", "C13/observe-raises/%s/at=%s" % (obs[1], obs[2]),
                     "after %s: %s raised %s" % (short(op), obs[2], obs[3]))
    _, content, view, problems, ranges = obs
    exp = model.content()
    # the whole-range query per (pair, direction) against the model
    range_viol = None
    for c in exp:
        pair = (c[0], c[1])
        for i, dn in ((4, "IN"), (5, "OUT")):
            want = [m for _, m in c[i]]
            got = ranges.get((pair, dn))
            if got is not None and got != want and range_viol is None:
                why = classify_list(got, want, model, pair, dn, -EVERYTHING, EVERYTHING)
                range_viol = (why, "after %s: recover_messages(%r, %s, whole range) returned %s, model %s" % (
                    short(op), pair, dn, short(got), short(want)))
    if content != exp and range_viol is None and [x[:4] for x in content] == [x[:4] for x in exp]:
        # sessions, counters and every range query agree with the model: the listing is wrong
        d = diff_content(content, exp)
        return _viol("all", "C13/get_all_msgs-wrong/unfiltered-listing-%s-rows" % d[0][1],
                     "after %s: get_all_msgs() disagrees with the model and with the range queries: %s" % (short(op), short(d[0])))
    if content == exp and range_viol is not None:
        return _viol("range", "C13/range-query-wrong/%s/bounds=whole-range" % range_viol[0], range_viol[1])
    if content != exp:
        d = diff_content(content, exp)
        what, sub, pair, detail = d[0]
        text = "after %s: %s %s for %r: %s (journal vs model)" % (short(op), what, sub, pair, short(detail))
        if k == "reopen":
            if sets_pending and content == pre_sets:
                return _viol("reopen", "C13/set_seq_num-lost-after-reopen",
                             "close + reopen directly after %d completed set_seq_num call(s): journal shows the state "
                             "before them; %s" % (sets_pending, text))
            return _viol("reopen", "C13/reopen-changed-state/%s-%s" % (what, sub), text)
        if content == before and exp != before:
            name = {"persist": "store", "set": "set_seq_num", "reset": "set_seq_num", "load": "create"}.get(k, k)
            return _viol("effect", "C13/%s-had-no-effect" % name, text)
        if k == "persist":
            if was_dup:
                return _viol("dup", "C13/dup-store-changed-state/%s-%s" % (what, sub), text)
            if what == "counter":
                same = (sub == "in") == (op[2] == "IN")
                return _viol("store", "C13/store-next-number-wrong/%s-direction" % ("own" if same else "other"), text)
            return _viol("store", "C13/store-content-wrong/%s-%s" % (what, sub), text)
        if k in ("set", "reset"):
            if what == "counter":
                return _viol("set", "C13/set_seq_num-counter-wrong/%s" % sub, text)
            if what == "rows":
                return _viol("set", "C13/set_seq_num-removed-wrong-messages/%s" % ("too-many" if sub == "missing" else "too-few"), text)
            return _viol("set", "C13/set_seq_num-changed-session-list/%s" % sub, text)
        if k == "load":
            return _viol("load", "C13/create_or_load-changed-state/%s-%s" % (what, sub), text)
        return _viol("read", "C13/read-changed-state/op=%s/%s-%s" % (k, what, sub), text)
    if problems:
        p = problems[0]
        return _viol("cross", "C13/" + p[0], "after %s: %s" % (short(op), p[1]))
    # the two loading paths agree (content holds create_or_load's numbers)
    for v, c in zip(view, content):
        if v[3] != c[2]:
            return _viol("sessions", "C13/sessions-next-in-differs-from-create_or_load",
                         "after %s: %r: sessions() next_in %r, create_or_load %r" % (short(op), v[:2], v[3], c[2]))
        if v[4] != c[3] and not cfg.get("lenient_sessions_next_out"):
            return _viol("sessions", "C13/sessions-next-out-differs-from-create_or_load",
                         "after %s: %r: sessions() next_out %r, create_or_load %r" % (short(op), v[:2], v[4], c[3]))
    return None


def _digest_update(h, x):
    h.update(repr(x).encode("utf-8", "backslashreplace"))
    h.update(b"\n")


def base_result(cfg, ops):
    return dict(
        seed=cfg.get("seed"), family="journal", violation=None, trace={"ops": ops, "crash": None}, config=cfg,
        digest="", ileave=shape_digest(ops), faults={}, probes={}, stats={}, abs_states=[], handles=0,
        actions=len(ops), evaluations=1, sim_seconds=0.0, stop_reason="done",
        nontrivial=count_mutating(ops) >= 3, dead_tasks=[],
    )


def run_c13(cfg, ops):
    """Fault-free strict run: every result and the complete content after every step."""
    res = base_result(cfg, ops)
    model = Model()
    h = hashlib.sha256()
    abs_states = set()
    d = make_run_dir()
    ex = None
    try:
        if jmod.sqlite3 is not REAL_SQLITE3:
            raise HarnessError("asyncfix.journaler.sqlite3 is not the real module at the start of a C13 run")
        ex = Executor(os.path.join(d, "j.db"))
        viol = None
        skipped = 0
        for i, op in enumerate(ops):
            if not model.can_apply(op):
                skipped += 1
                continue
            before = model.content()
            pre_sets, sets_pending = model.pre_sets, model.sets_pending
            exp = model.apply(op)
            got = ex.apply(op)
            _digest_update(h, (i, got))
            viol = compare_result(op, exp, got, model, cfg)
            if viol is None and op[0] == "load":
                model.pairs[(op[2], op[3])][2] = got[1]
            if viol is None and ex.j is not None:
                obs = observe(ex.j)
                _digest_update(h, obs[:3])
                viol = compare_observation(op, obs, model, before, pre_sets, sets_pending,
                                           op[0] == "persist" and exp[0] == "exc", cfg)
            abs_states.add(model.abstract())
            if viol is not None:
                viol["text"] = "op #%d: %s" % (i, viol["text"])
                break
        res["violation"] = viol
        res["probes"] = dict(model.probes)
        if skipped:
            res["probes"]["ops_skipped_undefined_handle"] = skipped
        if viol is not None:
            res["stop_reason"] = "violation"
    finally:
        try:
            if ex is not None:
                ex.h.clear()
                ex.close()
        finally:
            shutil.rmtree(d, ignore_errors=True)
    res["abs_states"] = sorted(abs_states)
    res["digest"] = h.hexdigest()
    return res


# ------------------------------------------------------------------- C08 (crash)
SIDE_SUFFIXES = ("-journal", "-wal", "-shm")
TUNING = {"small_cache": False}  # set per run by run_c08 (a forked real-kill child inherits it)


def split_script(script):
    """The statements of an SQL script, split where SQLite itself would (sqlite3.complete_statement)."""
    out, cur = [], ""
    for part in re.split(r"(;)", script):
        cur += part
        if part == ";" and REAL_SQLITE3.complete_statement(cur):
            if cur.strip(" \t\r\n;"):
                out.append(cur)
            cur = ""
    if cur.strip(" \t\r\n;"):
        out.append(cur)
    return out


class CursorProxy:
    __slots__ = ("_k", "_cb")

    def __init__(self, k, cb):
        self._k = k
        self._cb = cb

    def execute(self, sql, params=()):
        self._cb("before_statement")
        try:
            self._k.execute(sql, params)
        finally:
            self._cb("after_statement")
        return self

    def executemany(self, sql, seq):
        self._cb("before_statement")
        try:
            self._k.executemany(sql, seq)
        finally:
            self._cb("after_statement")
        return self

    def executescript(self, script):
        # sqlite3's executescript() = COMMIT of a pending transaction, then every statement of the script outside
        # Python's transaction control (autocommit unless the script itself says BEGIN).  The same thing with a
        # boundary (= possible crash point) around the commit and around each statement: commit, then the
        # statements one by one with the connection's implicit BEGIN switched off.
        conn = self._k.connection
        if conn.in_transaction:
            self._cb("before_commit")
            try:
                conn.commit()
            finally:
                self._cb("after_commit")
        saved = conn.isolation_level
        conn.isolation_level = None
        try:
            for piece in split_script(script):
                self._cb("before_statement")
                try:
                    self._k.execute(piece)
                finally:
                    self._cb("after_statement")
        finally:
            conn.isolation_level = saved
        return self

    def __iter__(self):
        return iter(self._k)

    def __next__(self):
        return next(self._k)

    @property
    def lastrowid(self):
        return self._k.lastrowid

    def close(self):
        self._k.close()

    def __getattr__(self, name):
        return getattr(self._k, name)


class ConnProxy:
    __slots__ = ("_c", "_cb", "_shim")

    def __init__(self, c, cb, shim):
        self._c = c
        self._cb = cb
        self._shim = shim

    def cursor(self):
        return CursorProxy(self._c.cursor(), self._cb)

    def commit(self):
        self._cb("before_commit")
        try:
            self._c.commit()
        finally:
            self._cb("after_commit")

    def rollback(self):
        self._cb("before_commit")
        try:
            self._c.rollback()
        finally:
            self._cb("after_commit")

    # `with conn:` = commit on success, rollback on an exception, never close
    def __enter__(self):
        return self

    def __exit__(self, et, ev, tb):
        if et is None:
            self.commit()
        else:
            self.rollback()
        return False

    # connection-level shortcuts create a cursor of their own: same boundaries as through cursor()
    def execute(self, sql, params=()):
        return self.cursor().execute(sql, params)

    def executemany(self, sql, seq):
        return self.cursor().executemany(sql, seq)

    def executescript(self, script):
        return self.cursor().executescript(script)

    def close(self):
        self._c.close()
        self._shim.closed += 1

    def __getattr__(self, name):
        return getattr(self._c, name)


class SqliteShim:
    """Stands in for the `sqlite3` module global of asyncfix.journaler."""

    IntegrityError = REAL_SQLITE3.IntegrityError

    def __init__(self, cb):
        self._cb = cb
        self.opened = 0
        self.closed = 0

    def connect(self, path, *a, **kw):
        self.opened += 1
        c = REAL_SQLITE3.connect(path, *a, **kw)
        if TUNING["small_cache"] and path != ":memory:":
            c.execute("PRAGMA page_size=512")  # takes effect only while the file is still empty
            c.execute("PRAGMA cache_size=1")
        return ConnProxy(c, self._cb, self)

    def __getattr__(self, name):
        return getattr(REAL_SQLITE3, name)


def _extra_files(path):
    """Files next to the store that carry its name plus a suffix other than SQLite's own side files (a lock or
    marker file the library might keep there): they are part of what a crash leaves behind."""
    d, base = os.path.dirname(path) or ".", os.path.basename(path)
    out = []
    try:
        names = sorted(os.listdir(d))
    except OSError:
        return out
    for name in names:
        if name.startswith(base) and name != base and name[len(base):] not in SIDE_SUFFIXES:
            out.append(name[len(base):])
    return out


def read_image(path, fd):
    """(db bytes, journal bytes|None, wal|None, shm|None, ((suffix, bytes), ...)) as on disk right now."""
    if fd is not None:
        size = os.fstat(fd).st_size
        main = os.pread(fd, size, 0) if size else b""
    else:
        try:
            with open(path, "rb") as f:
                main = f.read()
        except FileNotFoundError:
            main = None
    out = [main]
    for suf in SIDE_SUFFIXES:
        try:
            with open(path + suf, "rb") as f:
                out.append(f.read())
        except FileNotFoundError:
            out.append(None)
    extras = []
    for suf in _extra_files(path):
        try:
            with open(path + suf, "rb") as f:
                extras.append((suf, f.read()))
        except OSError:
            pass
    out.append(tuple(extras))
    return tuple(out)


def write_image(path, image):
    for suf, data in zip(("",) + SIDE_SUFFIXES, image):
        p = path + suf
        if data is None:
            try:
                os.unlink(p)
            except FileNotFoundError:
                pass
        else:
            with open(p, "wb") as f:
                f.write(data)
    extras = dict(image[4]) if len(image) > 4 else {}
    for suf in _extra_files(path):
        if suf not in extras:
            try:
                os.unlink(path + suf)
            except OSError:
                pass
    for suf, data in extras.items():
        with open(path + suf, "wb") as f:
            f.write(data)


def remove_image(path):
    for suf in ("",) + SIDE_SUFFIXES + tuple(_extra_files(path)):
        try:
            os.unlink(path + suf)
        except FileNotFoundError:
            pass


class Recorder:
    """Numbers the boundaries of a history and keeps a file image for each."""

    def __init__(self, path, exit_at=None, keep_images=True):
        self.path = path
        self.points = []  # (kind, ext op index, image)
        self.e = 0
        self.n_boundaries = 0
        self.exit_at = exit_at
        self.keep_images = keep_images
        # a descriptor opened BEFORE SQLite opens the file and closed after it closed it:
        # closing a descriptor of a file drops the process's POSIX locks on it, so the
        # snapshot reader must never open/close the main file while SQLite has it open
        self.fd = os.open(path, os.O_RDWR | os.O_CREAT, 0o644)

    def cb(self, kind):
        self.n_boundaries += 1
        if self.exit_at is not None:
            if self.n_boundaries == self.exit_at:
                os._exit(9)
            return
        self.points.append((kind, self.e, read_image(self.path, self.fd) if self.keep_images else None))

    def normal_close(self):
        if self.exit_at is None:
            self.points.append(("normal_close", self.e, read_image(self.path, self.fd) if self.keep_images else None))

    def close(self):
        if self.fd is not None:
            os.close(self.fd)
            self.fd = None


def execute_history_c08(ops, path, exit_at=None):
    """Run `ops` on a file-backed Journaler under the sqlite3 shim.

    ext op 0 is the initial open, ext op i+1 is ops[i], the last ext op is the final
    normal close.  Returns (recorder, model contents M[0..], ext kinds, results, model,
    stopped_early).
    """
    rec = Recorder(path, exit_at=exit_at)
    shim = SqliteShim(rec.cb)
    model = Model()
    contents = [()]  # M before ext op 0
    kinds = ["open"]
    results = []
    abs_states = set()
    stopped = False
    ex = None
    saved = jmod.sqlite3
    jmod.sqlite3 = shim
    try:
        rec.e = 0
        ex = Executor(path, on_closed=rec.normal_close)
        contents.append(())
        for i, op in enumerate(ops):
            if not model.can_apply(op):
                model.probes["ops_skipped_undefined_handle"] += 1
                continue
            rec.e = len(kinds)
            exp = model.apply(op)
            got = ex.apply(op)
            results.append((i, got[:2] if got[0] == "exc" else got[0]))
            kinds.append(op[0] if not (op[0] == "persist" and exp[0] == "exc") else "persist-dup")
            contents.append(model.content())
            abs_states.add(model.abstract())
            if op[0] == "load" and got[0] == "ok" and model.pairs[(op[2], op[3])][2] is None:
                model.pairs[(op[2], op[3])][2] = got[1]
            if (got[0] == "exc") != (exp[0] == "exc") or ex.j is None:
                # the live API misbehaved: C13's business; the history ends here
                model.probes["live_api_mismatch_stops_history"] += 1
                stopped = True
                break
        if not stopped:
            rec.e = len(kinds)
            kinds.append("close")
            ex.h.clear()
            ex.close()
            rec.normal_close()
            contents.append(model.content())
            if shim.closed != shim.opened:
                raise HarnessError("connections opened %d, closed %d" % (shim.opened, shim.closed))
    finally:
        jmod.sqlite3 = saved
        try:
            if ex is not None:
                ex.h.clear()
                ex.on_closed = None
                ex.close()
        finally:
            rec.close()
    return rec, contents, kinds, results, model, stopped, abs_states


def classify_c08(obs, allowed, contents, kinds, e, pos, after):
    """None if the reopened content is allowed, else (clause, signature, detail)."""
    if obs[0] == "raises":
        return ("usable", "C08/reopen-raises/%s/at=%s" % (obs[1], obs[2]), obs[3])
    _, content, view, problems, _ranges = obs
    if problems:
        p = problems[0]
        return ("usable", "C08/reopened-journal-inconsistent/" + p[0], p[1])
    for a in allowed:
        if content == contents[a]:
            return None
    base = min(allowed)
    how = "after=normal-close" if after == "normal_close" else "crash"
    for j in range(base - 1, -1, -1):
        if contents[j] == content:
            lost = [kinds[x] for x in range(j, base) if contents[x] != contents[x + 1]]
            detail = "content equals the state after %d completed operation(s); %d were completed; lost: %s" % (
                max(j - 1, 0), base - 1, ",".join(lost))
            ks = set(lost)
            if ks and ks <= {"set", "reset"}:
                return ("set-durable", "C08/completed-set_seq_num-lost/" + how, detail)
            if "persist" in ks:
                return ("acked-store", "C08/acked-store-lost/" + how, detail)
            if "load" in ks:
                return ("boundary", "C08/completed-create-lost/" + how, detail)
            return ("boundary", "C08/completed-operation-lost/" + how, detail)
    kind = kinds[e]
    if kind == "persist" and e + 1 < len(contents):
        mb, ma = contents[e], contents[e + 1]
        rows = lambda c: tuple((x[0], x[1], x[4], x[5]) for x in c)  # noqa: E731
        ctrs = lambda c: tuple((x[0], x[1], x[2], x[3]) for x in c)  # noqa: E731
        if rows(content) == rows(ma) and ctrs(content) == ctrs(mb) and ctrs(ma) != ctrs(mb):
            return ("row-counter", "C08/row-without-counter", "message row present, its counter update is not")
        if rows(content) == rows(mb) and ctrs(content) == ctrs(ma) and rows(ma) != rows(mb):
            return ("row-counter", "C08/counter-without-row", "counter advanced, the message row is absent")
    d = diff_content(content, contents[base])
    return ("boundary", "C08/state-not-at-operation-boundary/op=%s" % kind,
            "differs from every state between completed operations; vs the state before the operation: %s" % short(d[:2], 300))


def run_c08(cfg, ops, crash=None, do_real_kill=False):
    res = base_result(cfg, ops)
    res["trace"] = {"ops": ops, "crash": crash}
    h = hashlib.sha256()
    d = make_run_dir()
    TUNING["small_cache"] = bool(cfg.get("small_cache"))
    try:
        live = os.path.join(d, "j.db")
        rec, contents, kinds, results, model, stopped, abs_states = execute_history_c08(ops, live)
        _digest_update(h, results)
        probes = collections.Counter(model.probes)
        points = rec.points
        # position of every boundary inside its operation
        first_of, last_of, nb_of = {}, {}, collections.Counter()
        for idx, (kind, e, _img) in enumerate(points):
            if kind == "normal_close":
                continue
            first_of.setdefault(e, idx)
            last_of[e] = idx
            nb_of[e] += 1
        boundary_no = {}
        close_no = {}
        nb = nc = 0
        for idx, (kind, e, _img) in enumerate(points):
            if kind == "normal_close":
                nc += 1
                close_no[idx] = nc
            else:
                nb += 1
                boundary_no[idx] = nb
        if nb != rec.n_boundaries:
            raise HarnessError("boundary bookkeeping: %d vs %d" % (nb, rec.n_boundaries))
        # which checkpoints to evaluate
        if crash is not None:
            if crash[0] == "boundary":
                todo = [i for i, n in boundary_no.items() if n == crash[1]]
            else:
                todo = [i for i, n in close_no.items() if n == crash[1]]
        else:
            todo = list(range(len(points)))
            cap = cfg.get("crash_cap", 60)
            if nb > cap:
                srng = random.Random((cfg.get("seed") or 0) ^ 0xC4A5)
                keep = set(srng.sample(sorted(boundary_no), cap)) | set(close_no)
                todo = [i for i in todo if i in keep]
                probes["history_with_more_boundaries_than_cap_sampled"] += 1
        if cfg.get("closes_first"):
            todo = [i for i in todo if i in close_no] + [i for i in todo if i not in close_no]
        snap = os.path.join(d, "snap.db")
        cache = {}
        faults = collections.Counter()
        viol = None
        n_eval = 0
        obs_by_idx = {}
        last_e = len(kinds) - 1
        for idx in todo:
            kind, e, image = points[idx]
            obs = cache.get(image)
            if obs is None:
                write_image(snap, image)
                obs = observe_file(snap)
                remove_image(snap)
                cache[image] = obs
                probes["distinct_file_images_reopened"] += 1
            obs_by_idx[idx] = obs
            n_eval += 1
            if kind == "normal_close":
                faults["normal_close_reopen"] += 1
                allowed = (e,)
                pos = "close"
            else:
                faults["crash_" + kind] += 1
                if stopped and e == last_e:
                    allowed, pos = (e, e + 1), "mid"
                elif idx == first_of[e]:
                    allowed, pos = (e,), "first"
                elif idx == last_of[e]:
                    allowed, pos = (e + 1,), "last"
                else:
                    allowed, pos = (e, e + 1), "mid"
                k = kinds[e]
                if image[1]:
                    probes["crash_with_rollback_journal_file_present"] += 1
                if k == "persist-dup":
                    probes["crash_around_rejected_duplicate_store"] += 1
                if pos == "mid":
                    off = idx - first_of[e]
                    if k == "persist":
                        if off in (1, 2):
                            probes["crash_inside_persist_between_insert_and_update"] += 1
                        else:
                            probes["crash_inside_persist_between_update_and_commit"] += 1
                    elif k in ("set", "reset"):
                        probes["crash_inside_set_seq_num"] += 1
                    elif k == "load":
                        probes["crash_inside_create_or_load"] += 1
                    elif k in ("open", "reopen"):
                        probes["crash_inside_constructor_between_create_tables"] += 1
            _digest_update(h, (idx, kind, e, obs[:2] if obs[0] == "ok" else obs[:3]))
            c = classify_c08(obs, allowed, contents, kinds, e, pos, kind)
            if c is not None:
                where = ("normal close #%d" % close_no[idx]) if kind == "normal_close" else (
                    "crash point #%d (%s, %s boundary of the operation)" % (boundary_no[idx], kind, pos))
                opdesc = "initial open" if e == 0 else ("final close" if kinds[e] == "close" else short(_nth_applied(ops, e - 1), 120))
                viol = _viol(c[0], c[1], "%s in ext-operation %d [%s] of %d: %s" % (where, e, opdesc, len(kinds) - 1, c[2]))
                res["trace"] = {"ops": ops, "crash": ["close", close_no[idx]] if kind == "normal_close"
                                else ["boundary", boundary_no[idx]]}
                break
        if n_eval == 0:
            n_eval = 1
            probes["replay_crash_point_not_in_history"] += 1
        res["violation"] = viol
        if viol is not None:
            res["stop_reason"] = "violation"
        res["faults"] = dict(faults)
        res["evaluations"] = n_eval
        res["n_crash_points"] = nb
        res["abs_states"] = sorted(abs_states)
        # cross-validation of the crash model against a real kill (harness self-check)
        if do_real_kill and nb > 0:
            krng = random.Random((cfg.get("seed") or 0) ^ 0x7E57)
            commits = [i for i in sorted(boundary_no) if points[i][0].endswith("commit")]
            # the commit is where the file changes: look there half of the time
            bidx = krng.choice(commits) if commits and krng.random() < 0.5 else krng.choice(sorted(boundary_no))
            obs = obs_by_idx.get(bidx)
            if obs is None:
                write_image(snap, points[bidx][2])
                obs = observe_file(snap)
                remove_image(snap)
            real = real_kill_observe(ops, d, boundary_no[bidx])
            if real[:3] != obs[:3]:
                raise HarnessError(
                    "crash model disagrees with a real kill at boundary %d of seed %r: snapshot %s, killed process left %s"
                    % (boundary_no[bidx], cfg.get("seed"), short(obs, 400), short(real, 400)))
            probes["real_kill_cross_validated"] += 1
        res["probes"] = dict(probes)
    finally:
        shutil.rmtree(d, ignore_errors=True)
    res["digest"] = h.hexdigest()
    return res


def _nth_applied(ops, n):
    """The n-th operation that was actually applied (skipping undefined-handle ops)."""
    m = Model()
    c = 0
    for op in ops:
        if not m.can_apply(op):
            continue
        if c == n:
            return op
        if op[0] == "load":
            m.handles[op[1]] = [(op[2], op[3]), 1, 1]
        c += 1
    return None


def real_kill_observe(ops, d, boundary):
    """Re-execute the history in a forked child that os._exit(9)s at `boundary`; observe the real file."""
    path = os.path.join(d, "kill.db")
    remove_image(path)
    pid = os.fork()
    if pid == 0:
        code = 3
        try:
            execute_history_c08(ops, path, exit_at=boundary)
        except BaseException:  # noqa: BLE001
            code = 4
        finally:
            os._exit(code)
    _, status = os.waitpid(pid, 0)
    if not os.WIFEXITED(status) or os.WEXITSTATUS(status) != 9:
        raise HarnessError("real-kill child did not die at boundary %d (status %r)" % (boundary, status))
    try:
        return observe_file(path)
    finally:
        remove_image(path)


# -------------------------------------------------------------------- minimiser
def minimise_ops(replay, cfg, trace, signature, budget_replays=400, budget_s=25.0):
    """Delta-debug the operation list while `signature` persists."""
    n_rep = [0]
    t_end = time.monotonic() + budget_s  # bounds effort only; never part of a result

    def fails(ops):
        if n_rep[0] >= budget_replays or time.monotonic() > t_end:
            return False
        n_rep[0] += 1
        try:
            r = replay(cfg, {"ops": ops, "crash": None})
        except Exception:  # noqa: BLE001
            return False
        v = r.get("violation")
        return v is not None and v["signature"] == signature

    ops = [list(o) for o in trace["ops"]]
    if not fails(ops):
        return trace, n_rep[0]
    # 1. shortest failing prefix
    lo, hi = 1, len(ops)
    while lo < hi:
        mid = (lo + hi) // 2
        if fails(ops[:mid]):
            hi = mid
        else:
            lo = mid + 1
    if hi < len(ops) and fails(ops[:hi]):
        ops = ops[:hi]
    # 2. ddmin
    n = 2
    while len(ops) >= 2 and n_rep[0] < budget_replays:
        chunk = max(1, len(ops) // n)
        reduced = False
        i = 0
        while i < len(ops):
            cand = ops[:i] + ops[i + chunk:]
            if cand and fails(cand):
                ops = cand
                n = max(n - 1, 2)
                reduced = True
            else:
                i += chunk
        if not reduced:
            if chunk == 1:
                break
            n = min(len(ops), n * 2)
    # 3. simplify arguments: shortest payloads, then small numbers
    for i, op in enumerate(ops):
        if op[0] == "persist":
            cand = [list(o) for o in ops]
            cand[i][4] = minimal_msg(op[3], i).hex()
            if cand[i][4] != op[4] and fails(cand):
                ops = cand
    for i, op in enumerate(ops):
        if op[0] == "set":
            for pos in (2, 3):
                if op[pos] is not None:
                    cand = [list(o) for o in ops]
                    cand[i][pos] = None
                    if fails(cand):
                        ops = cand
                        op = ops[i]
    r = replay(cfg, {"ops": ops, "crash": None})
    v = r.get("violation")
    if v is None or v["signature"] != signature:
        return trace, n_rep[0]
    return {"ops": ops, "crash": r["trace"].get("crash")}, n_rep[0]


def describe_ops(ops):
    lines = []
    for i, op in enumerate(ops):
        if op[0] == "persist":
            lines.append("%2d persist h%s %s seq=%s bytes=%r" % (i, op[1], op[2], op[3], bytes.fromhex(op[4])))
        else:
            lines.append("%2d %s" % (i, " ".join(str(x) for x in op)))
    return lines
