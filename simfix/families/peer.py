"""One real endpoint (EUT) against a ScriptedPeer that is *not* the library.

The peer owns one end of a SimNet connection, builds frames with the reference
encoder (refframer.build) and parses what it receives with refframer.  Its
behaviour is chooser-driven and part of the action trace.
"""
import asyncio
import random

import asyncfix.codec
from asyncfix import FTag
from asyncfix.connection import ConnectionRole, ConnectionState
from asyncfix.message import MessageDirection

from .. import refframer
from ..apps import SimClient, SimServer, make_endpoint
from ..core import HarnessError, Sim, Violation
from .pair import TapJournaler

HOST, PORT = "sim.host", 9100
ACTIVE = ConnectionState.ACTIVE
DISCONNECTED = ConnectionState.DISCONNECTED_BROKEN_CONN


def fix_time(t):
    """UTCTimestamp for virtual time t (independent of the library's formatter)."""
    import datetime as _dt

    d = _dt.datetime(1970, 1, 1) + _dt.timedelta(seconds=t)
    return d.strftime("%Y%m%d-%H:%M:%S.") + "%03d" % (d.microsecond // 1000)


class PeerProtocol(asyncio.Protocol):
    def __init__(self, peer):
        self.peer = peer

    def connection_made(self, transport):
        self.transport = transport
        self.peer.on_connected(transport)

    def stale(self, what):
        # events of a connection the peer has already replaced by a newer one (e.g. the slow close of the previous
        # connection completing late) belong to that old socket, not to the peer's current session
        if self.peer.tr is not getattr(self, "transport", None):
            self.peer.sim.rec("peer_stale_" + what, self.peer.name)
            return True
        return False

    def data_received(self, data):
        if not self.stale("data"):
            self.peer.on_data(data)

    def eof_received(self):
        if not self.stale("eof"):
            self.peer.on_eof()
        return False

    def connection_lost(self, exc):
        if not self.stale("lost"):
            self.peer.on_lost(exc)

    def pause_writing(self):
        pass

    def resume_writing(self):
        pass


class ScriptedPeer:
    """Counterparty model.  `auto` selects which well-behaved reactions it has."""

    def __init__(self, sim, comp_id, eut_comp_id, name="P"):
        self.sim = sim
        self.name = name
        self.comp_id = comp_id
        self.eut_comp_id = eut_comp_id
        self.tr = None
        self.rxbuf = b""
        self.received = []  # (evno, frame bytes, fdict)
        self.sent = []  # dict(evno, frame, seq, type, spec)
        self.next_out = 1
        self.next_in = 1  # what the peer expects from the EUT (well-behaved bookkeeping)
        self.auto = dict(logon=True, testreq=True, resend=True, logout=True, gapdetect=False)
        self.connected = False
        self.n_connections = 0
        self.eof_seen = False
        self.logged_on = False
        self.on_frame_cb = None

    # -- transport events -------------------------------------------------
    def on_connected(self, tr):
        self.tr = tr
        self.rxbuf = b""
        self.connected = True
        self.eof_seen = False
        self.logged_on = False
        self.n_connections += 1
        self.sim.rec("peer_connected", self.name)
        self.sim.peer_event("connected")

    def on_eof(self):
        self.eof_seen = True
        self.connected = False
        self.sim.rec("peer_eof", self.name)
        self.sim.peer_event("eof")

    def on_lost(self, exc):
        self.connected = False
        self.sim.rec("peer_lost", self.name, type(exc).__name__ if exc else None)
        self.sim.peer_event("lost")

    def on_data(self, data):
        self.rxbuf += data
        frames, err, rest = refframer.split_stream(self.rxbuf)
        if err:
            # the EUT wrote something that is not a frame: remember, resync leniently
            self.sim.rec("peer_rx_unparseable", err[:80])
            self.sim.stat("peer_rx_unparseable")
            frames = refframer.scan_frames(self.rxbuf)
            rest = b""
        self.rxbuf = rest
        for fr in frames:
            d = refframer.fdict(fr)
            ev = self.sim.rec("peer_rx", d.get("35"), d.get("34"))
            self.received.append((ev, fr, d))
            self.react(d)
            if self.on_frame_cb:
                self.on_frame_cb(d, fr)

    # -- sending -------------------------------------------------------------
    def send_raw(self, data, spec=None):
        if self.tr is None or self.tr.is_closing():
            self.sim.stat("peer_send_on_closed")
            return None
        ev = self.sim.rec("peer_tx", (spec or {}).get("t"), (spec or {}).get("seq"))
        self.tr.write(data)
        return ev

    def send(self, msgtype, body=(), seq=None, possdup=False, spec=None, count=True, **kw):
        """Build + send one frame.  seq=None -> next consecutive number."""
        if seq is None:
            seq = self.next_out
        t = self.sim.loop.time()
        ost = kw.pop("orig_sending_time", None)
        if possdup and ost is None:
            ost = fix_time(t - 1)
        frame = refframer.build(
            msgtype, body, sender=kw.pop("sender", self.comp_id), target=kw.pop("target", self.eut_comp_id),
            seq=seq, sending_time=fix_time(t), possdup=possdup, orig_sending_time=ost, **kw,
        )
        sp = dict(spec or {})
        sp.update(t=str(msgtype), seq=seq, pd=bool(possdup))
        ev = self.send_raw(frame, sp)
        ent = dict(evno=ev, frame=frame, seq=seq, type=str(msgtype), pd=bool(possdup), spec=sp, body=list(body),
                   conn=self.n_connections)
        if ev is None:
            # nothing was written (no / closing transport): the frame does not exist, its number is not consumed
            return ent
        self.sent.append(ent)
        if count and seq is not None and isinstance(seq, int) and seq >= self.next_out and not possdup:
            self.next_out = seq + 1
        return ent

    def send_many(self, items, spec=None):
        """Several frames in ONE transport write (they reach the endpoint in the same read).
        items: [(msgtype, body, seq, kwargs)]; numbers are not consumed."""
        t = self.sim.loop.time()
        ents, blob = [], b""
        for (msgtype, body, seq, kw) in items:
            kw = dict(kw)
            frame = refframer.build(msgtype, body, sender=kw.pop("sender", self.comp_id),
                                    target=kw.pop("target", self.eut_comp_id), seq=seq, sending_time=fix_time(t), **kw)
            sp = dict(spec or {})
            sp.update(t=str(msgtype), seq=seq, pd=False)
            ents.append(dict(evno=None, frame=frame, seq=seq, type=str(msgtype), pd=False, spec=sp, body=list(body),
                             conn=self.n_connections))
            blob += frame
        ev = self.send_raw(blob, dict(t="burst", seq=None))
        for e in ents:
            e["evno"] = ev
            self.sent.append(e)
        return ents

    def close(self):
        if self.tr is not None:
            self.tr.close()

    # -- well-behaved reactions --------------------------------------------
    def react(self, d):
        t = d.get("35")
        auto = self.auto
        try:
            seq = int(d.get("34", "0"))
        except ValueError:
            seq = 0
        if d.get("43") != "Y" and t != "4":
            if seq >= self.next_in:
                self.next_in = seq + 1
        if t == "4":
            try:
                self.next_in = max(self.next_in, int(d.get("36", "0")))
            except ValueError:
                pass
        if t == "A":
            if auto["logon"] and not self.logged_on and self.sim.eut_role == "initiator":
                self.logged_on = True
                self.send("A", [("98", "0"), ("108", d.get("108", "30"))] + list(getattr(self, "logon_extra", ())),
                          spec={"auto": "logon"})
                self.sim.peer_event("logon_sent")
            else:
                self.logged_on = True
        elif t == "1" and auto["testreq"]:
            self.send("0", [("112", d.get("112", ""))], spec={"auto": "hb"})
        elif t == "2" and auto["resend"]:
            self.serve_resend(int(d.get("7", "0")), int(d.get("16", "0")))
        elif t == "5" and auto["logout"]:
            self.send("5", [], spec={"auto": "logout"})
            self.close()

    def serve_resend(self, b, e):
        """Honour a ResendRequest from the peer's own send log."""
        last = self.next_out - 1
        if e == 0 or e > last:
            e = last
        if b < 1 or b > e:
            return
        by_seq = {}
        for s in self.sent:
            if not s["pd"] and s["type"] != "4" and isinstance(s["seq"], int):
                by_seq.setdefault(s["seq"], s)
        gap_from = None
        n = b
        self.sim.probe("peer_served_resend_request")
        while n <= e:
            s = by_seq.get(n)
            if s is None or s["type"] in refframer.SESSION_TYPES:
                if gap_from is None:
                    gap_from = n
            else:
                if gap_from is not None:
                    self.send("4", [("123", "Y"), ("36", n)], seq=gap_from, count=False, spec={"auto": "gapfill"})
                    gap_from = None
                self.send(s["type"], s["body"], seq=n, possdup=True, count=False, spec={"auto": "resend"})
            n += 1
        if gap_from is not None:
            self.send("4", [("123", "Y"), ("36", e + 1)], seq=gap_from, count=False, spec={"auto": "gapfill"})


class PeerSim(Sim):
    """EUT (real endpoint) + ScriptedPeer.  Subclasses add stimuli and oracles."""

    family = "peer"

    DEFAULTS = dict(Sim.DEFAULTS, eut_role="acceptor", hb=30, eut_in=1, eut_out=1, start_offset=0.0)

    # ---------------------------------------------------------------- setup
    def setup(self):
        cfg = self.cfg
        self.eut_role = cfg["eut_role"]
        self.journal = self.make_journal()
        if self.eut_role == "acceptor":
            cls, sender, target = SimServer, "SRV", "CLI"
        else:
            cls, sender, target = SimClient, "CLI", "SRV"
        if cfg["eut_in"] != 1 or cfg["eut_out"] != 1:
            s = self.journal.create_or_load(target, sender)
            if cfg.get("prefill_out"):
                # the journal of an earlier connection: application messages behind the outbound counter, so that a
                # ResendRequest of the peer has something to retransmit (should_replay() is asked for each)
                from ..core import EPOCH

                for n in range(1, cfg["eut_out"]):
                    body = [("11", f"J-{n}"), ("55", "ES"), ("54", "1"), ("38", n), ("44", "2.5")]
                    fr = refframer.build("D", body, sender, target, n, fix_time(EPOCH - 5000 + n))
                    self.journal.persist_msg(fr, s, MessageDirection.OUTBOUND)
            self.journal.set_seq_num(s, next_num_out=cfg["eut_out"], next_num_in=cfg["eut_in"])
            self.journal.live = None
        self.eut = make_endpoint(self, cls, "E", sender, target, self.journal, HOST, PORT, cfg["hb"])
        self.peer = ScriptedPeer(self, target, sender, "P")
        self.decodes = []  # (evno, input_index or None, result kind, consumed, buflen, raw)
        self.decode_errors = []
        self.inputs_processed = 0
        self.install_decode_tap()
        if self.eut_role == "acceptor":
            self.net.register(HOST, PORT, "E", "P")
            self.spawn(self._eut_connect(), "E-connect")
            self.loop.call_later(cfg["start_offset"] + 0.001, self.peer_connect)
        else:
            self.net.register(HOST, PORT, "P", "E")
            self.net.listen_raw(HOST, PORT, lambda: PeerProtocol(self.peer), "P")
            self.loop.call_later(cfg["start_offset"], lambda: self.spawn(self._eut_connect(), "E-connect"))
        self.setup_family()

    def setup_family(self):
        pass

    def make_journal(self):
        return TapJournaler()

    async def _eut_connect(self):
        try:
            await self.eut.connect()
        except Exception as e:
            self.rec("eut_connect_error", type(e).__name__, str(e)[:80])

    def peer_connect(self):
        try:
            self.net.connect_raw(HOST, PORT, lambda: PeerProtocol(self.peer), "P")
        except ConnectionRefusedError:
            self.rec("peer_connect_refused")

    def peer_event(self, kind):
        pass

    def ep_event(self, ep, kind, *args):
        pass

    # ------------------------------------------------------- decode seam tap
    def install_decode_tap(self):
        """Wrap the public Codec.decode for the duration of the run."""
        sim = self
        orig = asyncfix.codec.Codec.decode
        self._orig_decode = orig

        def tapped(codec_self, rawmsg, silent=True):
            try:
                res = orig(codec_self, rawmsg, silent)
            except BaseException as e:
                if silent:
                    sim.on_decode(rawmsg, None, e)
                raise
            if silent:
                sim.on_decode(rawmsg, res, None)
            return res

        asyncfix.codec.Codec.decode = tapped

    def teardown(self):
        try:
            super().teardown()
        finally:
            asyncfix.codec.Codec.decode = self._orig_decode

    def on_decode(self, buf, res, exc):
        if exc is not None:
            ev = self.rec("decode_raised", type(exc).__name__, len(buf))
            self.decode_errors.append((ev, type(exc).__name__, bytes(buf[:200])))
            self.decodes.append((ev, "raised", None, len(buf), None))
            return
        msg, consumed, raw = res
        kind = "msg" if msg is not None else "none"
        ev = self.rec("decode", kind, consumed, len(buf))
        self.decodes.append((ev, kind, consumed, len(buf), raw))
        # we are inside library code here: nothing may propagate into it
        try:
            self.on_decoded(ev, msg, consumed, buf, raw)
        except Violation as v:
            if self.violation is None:
                self.violation = v
            self._stop("violation")
        except HarnessError as e:
            self.harness_fail(str(e))

    def on_decoded(self, ev, msg, consumed, buf, raw):
        pass

    # ---------------------------------------------------------------- views
    def live(self):
        return self.journal.live

    def eut_writes(self):
        """Frames written by the EUT: [(evno, cid, fdict, frame)] (refframer view)."""
        return self.frames_written("E")

    def logged_on(self):
        return self.eut.connection_state == ACTIVE

    def eut_disconnected(self):
        return self.eut.connection_state <= DISCONNECTED

    def abstract_state(self):
        lv = self.live()
        conn = self.net.conns[-1] if self.net.conns else None
        return (
            int(self.eut.connection_state),
            min(self.peer.next_out - (lv.next_num_in if lv else 0), 4) if lv else 0,
            min(len(conn.q[0]), 3) if conn else 0,
            min(len(conn.q[1]), 3) if conn else 0,
            len(self.pending_hooks) > 0,
            bool(conn and not conn.broken),
        )

    def sample(self):
        return dict(
            config={k: v for k, v in self.cfg.items() if k not in ("max_handles", "max_boundaries")},
            actions=self.out_actions[:40],
            peer_sent=[(s["type"], s["seq"], s["pd"]) for s in self.peer.sent[:40]],
            eut_wrote=[(d.get("35"), d.get("34")) for (_, _, d, _, _) in self.eut_writes()[:40]],
            final_state=self.eut.connection_state.name,
        )
