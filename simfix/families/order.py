"""Order family: a two-party order protocol machine.

  * ``RefExchange``   executable model of the FIX 4.4 order state change matrices
                      (A vanilla, B cancel, C cancel/replace) -- the *trusted* side.
  * ``OrderMachine``  C17: a real ``FIXNewOrderSingle`` + thin driver against
                      ``RefExchange`` over two FIFO queues; the chooser decides the
                      interleaving of client requests, exchange decisions, spontaneous
                      exchange events and deliveries.
  * ``C20aMachine``   C20 half (a): the same machine in lock-step (zero latency) with
                      every report fabricated by the bundled ``FIXTester`` helper.
  * ``selftest_matrices()``  cross-check of ``RefExchange`` against the matrix scenarios
                      replayed by /repo/tests/test_protocol_order_single.py.

Both machines are synchronous; a run is a pure function of (code under test, config,
action list).  Actions are JSON lists; in replay an action that is not enabled when its
turn comes is skipped.

What ``RefExchange`` does (and nothing else):
  new order      -> [Pending New] + New | Rejected
  cancel request -> [Pending Cancel] + Canceled | OrderCancelReject(39 = current status);
                    or Pending Cancel now and the decision later ("hold": B.1.b / B.1.c)
  replace request-> [Pending Replace] + Replaced(39 = New/PartiallyFilled/Filled, qty
                    amended up to CumQty) | OrderCancelReject; or hold (C.1.b, C.3.a);
                    a Filled order may be revived by a replace that raises the quantity
                    above CumQty (C.1.c case 2); a request for a Canceled / Expired /
                    Rejected order, a cancel for a Filled order and a replace for a
                    Suspended order are always rejected ("too late" / not shown)
  spontaneous    -> partial / full fill (also while a request is in flight or pending:
                    reported under the id the order is live under, 39 = Pending
                    Cancel/Replace once the pending report went out, else the fill
                    status), expire, suspend, resume, unsolicited cancel, reject of an
                    acknowledged zero-filled order.  While a request is *held pending*
                    only fills happen (that is all the matrices show); a suspended
                    order neither trades nor expires.
"""
import collections
import copy
import hashlib
import os
import random
import re
import traceback
import zlib
from math import nan

import asyncfix
from asyncfix import FIXMessage, FMsg
from asyncfix.errors import FIXError
from asyncfix.protocol.common import FExecType, FOrdSide, FOrdStatus
from asyncfix.protocol.order_single import FIXNewOrderSingle

# OrdStatus / ExecType values (plain strings: this is the model's own vocabulary)
S_NEW, S_PF, S_FILLED, S_CANCELED, S_PCANCEL = "0", "1", "2", "4", "6"
S_REJECTED, S_SUSPENDED, S_PNEW, S_EXPIRED, S_PREPLACE = "8", "9", "A", "C", "E"
FINISHED = (S_FILLED, S_CANCELED, S_REJECTED, S_EXPIRED)

E_NEW, E_CANCELED, E_REPLACED, E_PCANCEL, E_REJECTED = "0", "4", "5", "6", "8"
E_SUSPENDED, E_PNEW, E_EXPIRED, E_PREPLACE, E_TRADE = "9", "A", "C", "E", "F"

RE_CHAIN_SUFFIX = re.compile(r".+--\d+", re.S)


def quant(grid, x):
    """Quantities live on a grid so that sums and differences are reproducible:
    'bin' = multiples of 1/8 (exact in binary), 'dec' = one decimal, re-rounded."""
    if grid == "dec":
        return round(x, 1)
    return round(x * 8.0) / 8.0


class ModelRefusal(Exception):
    """The client sent something the exchange model cannot place (unknown id ...)."""

    def __init__(self, what, text):
        super().__init__(text)
        self.what = what


# =========================================================================== exchange
class RefExchange:
    """Authoritative order state + report generator (see module docstring)."""

    def __init__(self, grid="bin", suspend_leaves_zero=False, order_id="X-7001"):
        self.grid = grid
        self.suspend_leaves_zero = suspend_leaves_zero
        self.order_id = order_id
        self.phase = None  # None (no order) | 'L' live | '2' | '4' | '8' | 'C'
        self.suspended = False
        self.cum = 0.0
        self.qty = None
        self.price = None
        self.side = None
        self.symbol = None
        self.account = None
        self.notional = 0.0
        self.live_id = None
        self.seen_ids = set()
        self.held = None  # request accepted as "pending", decision still open
        self.n_exec = 0
        self.acked = False
        self.new_oid_on_replace = False
        self.n_oid = 0

    # ---- views
    def status(self):
        if self.phase is None:
            return None
        if self.phase == "L":
            if self.suspended:
                return S_SUSPENDED
            return S_PF if self.cum > 0 else S_NEW
        return self.phase

    def finished(self):
        return self.phase in FINISHED

    def remaining(self):
        if self.phase != "L":
            return 0.0
        return max(quant(self.grid, self.qty - self.cum), 0.0)

    def leaves(self):
        if self.phase != "L":
            return 0.0
        if self.suspended and self.suspend_leaves_zero:
            return 0.0
        return self.remaining()

    def avg_px(self):
        return round(self.notional / self.cum, 6) if self.cum > 0 else 0.0

    def snapshot(self):
        d = dict(self.__dict__)
        d["seen_ids"] = set(self.seen_ids)
        d["held"] = dict(self.held) if self.held else None
        return d

    def restore(self, snap):
        self.__dict__.update(snap)

    # ---- report specs
    def _exec(self, label, exec_type, ord_status, clord, orig=None, last=None, final_for=None,
              leaves=None):
        self.n_exec += 1
        return dict(
            t="8", label=label, exec_type=exec_type, ord_status=ord_status, clord=clord, orig=orig,
            order_id=self.order_id, exec_id=f"{self.order_id}.{self.n_exec}", side=self.side,
            symbol=self.symbol, account=self.account, qty=self.qty, price=self.price, cum=self.cum,
            leaves=self.leaves() if leaves is None else leaves, avg_px=self.avg_px(), last=last,
            final_for=final_for,
        )

    def status_report(self):
        """ExecutionReport with ExecType=I (Order Status): restates the order's current state."""
        return [self._exec("status", "I", self.status(), self.live_id)]

    def _reject(self, to, clord, orig):
        return dict(
            t="9", label="cancel-reject", to=to, clord=clord, orig=orig, order_id=self.order_id,
            ord_status=self.status(), resp_to="1" if to == "cancel" else "2", final_for=clord,
        )

    # ---- new order
    def on_new(self, req, pend, decision):
        if self.phase is not None:
            raise ModelRefusal("second-new-order", "a second NewOrderSingle reached the exchange")
        self.live_id = req["11"]
        self.seen_ids.add(req["11"])
        self.qty = float(req["38"])
        self.price = float(req["44"])
        self.side, self.symbol, self.account = req["54"], req["55"], req.get("1")
        self.phase = "L"
        out = []
        if pend:
            out.append(self._exec("pending-new", E_PNEW, S_PNEW, self.live_id, leaves=self.qty))
        if decision == "reject":
            self.phase = S_REJECTED
            out.append(self._exec("reject-new", E_REJECTED, S_REJECTED, self.live_id, final_for=self.live_id))
        else:
            decision = "ack"
            self.acked = True
            out.append(self._exec("new", E_NEW, S_NEW, self.live_id, final_for=self.live_id))
        return out, decision

    # ---- cancel / replace requests
    def _accept_feasible(self, kind, qty):
        if kind == "cancel":
            return self.phase == "L"
        if self.phase == "L":
            return not self.suspended
        return self.phase == S_FILLED and qty is not None and qty > self.cum

    def on_request(self, req, pend, decision, avoid_rejects=False):
        """-> (report specs, normalised decision, normalised pend)."""
        kind = req["kind"]
        new_id, old_id = req["11"], req["41"]
        if self.phase is None:
            raise ModelRefusal("request-before-new", f"{kind} request reached the exchange before any order")
        if old_id != self.live_id:
            raise ModelRefusal(
                "origclordid-unknown-at-exchange",
                f"{kind} request 11={new_id!r} refers to 41={old_id!r} but the order is live under {self.live_id!r}",
            )
        if new_id in self.seen_ids:
            raise ModelRefusal("duplicate-clordid-at-exchange", f"{kind} request re-uses ClOrdID {new_id!r}")
        self.seen_ids.add(new_id)
        r = dict(kind=kind, new=new_id, old=old_id, price=None, qty=None)
        if kind == "replace":
            r["price"] = float(req["44"])
            r["qty"] = float(req["38"])
        feasible = self._accept_feasible(kind, r["qty"])
        if decision not in ("accept", "reject", "hold"):
            decision = "accept"
        if decision in ("accept", "hold") and not feasible:
            decision = "reject"
        if decision == "reject" and avoid_rejects:
            if not feasible:
                raise RuntimeError("generator let a forced reject happen in an avoid_rejects run")
            decision = "accept"
        if decision == "hold":
            pend = True
        if decision == "reject" and self.phase != "L":
            pend = False  # no Pending report for a dead order
        out = []
        if pend:
            out.append(self._pending_report(r))
        if decision == "hold":
            self.held = r
            return out, decision, pend
        out.append(self._decide(r, decision))
        return out, decision, pend

    def _pending_report(self, r):
        if r["kind"] == "cancel":
            return self._exec("pending-cancel", E_PCANCEL, S_PCANCEL, r["new"], orig=r["old"])
        return self._exec("pending-replace", E_PREPLACE, S_PREPLACE, r["new"], orig=r["old"])

    def _decide(self, r, decision):
        if decision == "reject":
            return self._reject(r["kind"], r["new"], r["old"])
        if r["kind"] == "cancel":
            self.phase = S_CANCELED
            return self._exec("canceled", E_CANCELED, S_CANCELED, r["new"], orig=r["old"], final_for=r["new"])
        self.price = r["price"]
        self.qty = max(r["qty"], self.cum)  # C.3.b / C.3.c: amended up to CumQty
        self.phase = "L" if quant(self.grid, self.qty - self.cum) > 0 else S_FILLED
        self.live_id = r["new"]
        if self.new_oid_on_replace:
            # FIX 4.4 lets the exchange treat the replacement as an order of its own: OrderID(37) changes with it
            self.n_oid += 1
            self.order_id = f"{self.order_id.split('/')[0]}/{self.n_oid}"
        return self._exec("replaced", E_REPLACED, self.status(), r["new"], orig=r["old"], final_for=r["new"])

    def resolve(self, decision, avoid_rejects=False):
        r = self.held
        feasible = self._accept_feasible(r["kind"], r["qty"])
        if decision != "reject":
            decision = "accept"
        if decision == "accept" and not feasible:
            decision = "reject"
        if decision == "reject" and avoid_rejects:
            if not feasible:
                raise RuntimeError("generator let a forced reject happen in an avoid_rejects run")
            decision = "accept"
        self.held = None
        return [self._decide(r, decision)], decision

    # ---- spontaneous events
    def can(self, event):
        live = self.phase == "L"
        if event == "fill":
            return live and not self.suspended and self.remaining() > 0
        if event in ("expire", "suspend"):
            return live and not self.suspended and self.held is None
        if event == "resume":
            return live and self.suspended and self.held is None
        if event == "unsol_cancel":
            return live and self.held is None
        if event == "late_reject":
            return live and not self.suspended and self.held is None and self.cum == 0
        raise KeyError(event)

    def fill(self, amount):
        rem = self.remaining()
        amount = min(amount, rem)
        self.cum = quant(self.grid, self.cum + amount)
        self.notional += amount * self.price
        if quant(self.grid, self.qty - self.cum) <= 0:
            self.cum = self.qty
            self.phase = S_FILLED
        if self.held is not None:
            st = S_PCANCEL if self.held["kind"] == "cancel" else S_PREPLACE
            return [self._exec("fill-pending", E_TRADE, st, self.live_id, last=amount)]
        return [self._exec("fill", E_TRADE, self.status(), self.live_id, last=amount)]

    def bust(self, exec_type, eighths):
        """Trade cancel / correct / restatement (FIX 4.4 matrix D: fill followed by bust / correction): part of
        the executed quantity is taken back, CumQty goes DOWN, LeavesQty up; the order keeps working."""
        old = self.cum
        step = 0.1 if self.grid == "dec" else 0.125
        amt = quant(self.grid, old * max(1, min(8, int(eighths))) / 8.0) or step
        amt = min(amt, old)
        self.cum = quant(self.grid, old - amt)
        self.notional = self.notional * (self.cum / old) if old else 0.0
        return [self._exec("bust", exec_type, self.status(), self.live_id)]

    def expire(self):
        self.phase = S_EXPIRED
        return [self._exec("expire", E_EXPIRED, S_EXPIRED, self.live_id)]

    def suspend(self):
        self.suspended = True
        return [self._exec("suspend", E_SUSPENDED, S_SUSPENDED, self.live_id)]

    def resume(self):
        self.suspended = False
        return [self._exec("resume", E_NEW, self.status(), self.live_id)]

    def unsol_cancel(self):
        self.phase = S_CANCELED
        self.suspended = False
        return [self._exec("unsol-cancel", E_CANCELED, S_CANCELED, self.live_id)]

    def late_reject(self):
        self.phase = S_REJECTED
        return [self._exec("late-reject", E_REJECTED, S_REJECTED, self.live_id)]


def render_report(spec):
    """Report spec -> FIXMessage, the way an exchange would send it (and the way
    FIXTester builds its synthetic ones)."""
    if spec["t"] == "9":
        m = FIXMessage(FMsg.ORDERCANCELREJECT)
        m[37] = spec["order_id"]
        m[11] = spec["clord"]
        m[41] = spec["orig"]
        m[39] = spec["ord_status"]
        m[434] = spec["resp_to"]
        return m
    m = FIXMessage(FMsg.EXECUTIONREPORT)
    m[11] = spec["clord"]
    m[37] = spec["order_id"]
    m[17] = spec["exec_id"]
    if spec["orig"]:
        m[41] = spec["orig"]
    m[150] = spec["exec_type"]
    m[39] = spec["ord_status"]
    m[54] = spec["side"]
    m[14] = spec["cum"]
    m[151] = spec["leaves"]
    if spec["last"] is not None:
        m[32] = spec["last"]
        m[31] = spec["price"]
    m[55] = spec["symbol"]
    m[44] = spec["price"]
    m[38] = spec["qty"]
    m[6] = spec["avg_px"]
    if spec["account"]:
        m[1] = spec["account"]
    return m


def req_from_msg(kind, m):
    """What the exchange reads from a client request."""
    d = dict(kind=kind, msg=m)
    for t in ("11", "41", "38", "44", "54", "55", "1"):
        v = m.get(t, None)
        if v is not None:
            d[t] = v
    return d


def msg_text(m):
    return "|".join(f"{t}={v}" for t, v in m.tags.items() if t != "60")


# ============================================================================= config
ACTION_KINDS = ("new", "cancel", "replace", "handle", "resolve", "fill", "expire", "suspend", "resume",
                "unsol_cancel", "late_reject", "deliver")
BASE_WEIGHTS = {
    "c17": dict(new=8.0, cancel=2.0, replace=3.0, handle=4.0, resolve=3.0, fill=3.0, expire=0.25,
                suspend=0.7, resume=1.5, unsol_cancel=0.25, late_reject=0.12, deliver=5.0),
    # lock-step: every action is a whole request/answer/delivery round, so order-ending
    # actions are made rarer to keep runs from ending after two or three steps
    "c20a": dict(new=8.0, cancel=0.6, replace=4.0, handle=0.0, resolve=3.0, fill=4.0, expire=0.12,
                 suspend=0.8, resume=2.0, unsol_cancel=0.12, late_reject=0.06, deliver=0.0),
}
NEVER_ZERO = ("new", "handle", "resolve", "deliver")
ROOT_ALPHABET = "abcdefghijklmnopqrstuvwxyzABCDEFGHIJKLMNOPQRSTUVWXYZ0123456789-_.:/#@ {}%\\$"
TRICKY_ROOTS = ("a--b", "x--1y", "--5--x", "ord--12a", "7", "--", "a-", "x--", "r--01x", "1--2--", "-",
                "A--1--B", "0", "n--", "id--9 ", "--1-", "q--1.", "o--1e3", "strat{}", "ord{0}", "x{y}", "algo{{7}}",
                "basket}}leg", "100%", "%s--%d", "a\\1", "$1")
QMODES = ("same", "up", "down", "below_cum", "eq_cum", "above_cum", "tick")
PMODES = ("same", "up", "down")


def make_root(r, exotic=False):
    if exotic:
        # a line of the root ends like the library's chaining suffix, the root itself does not
        return r.choice(["ab--1\ncd", "k--22\n", "z--3\n--x"])
    if r.random() < 0.25:
        root = r.choice(TRICKY_ROOTS)
    else:
        root = "".join(r.choice(ROOT_ALPHABET) for _ in range(r.randint(1, 14)))
    root = root.strip() or "r"
    if RE_CHAIN_SUFFIX.fullmatch(root):
        root += "x"
    return root


def make_config(seed, tier="quick", half="c17"):
    """Swarm configuration of one run; everything the run needs is in here (JSON-able)."""
    r = random.Random(seed ^ 0xC17C20)
    grid = "dec" if r.random() < 0.3 else "bin"
    if grid == "bin":
        qty = r.choice([1, 2, 5, 10, 100, 0.125, 0.5, 2.5, 7.875, 12.25, r.randint(1, 4000) / 8.0])
    else:
        qty = r.choice([1, 10, 0.1, 0.3, 2.5, 7.9, 12.3, round(r.randint(1, 5000) / 10.0, 1)])
    price = r.choice([200.0, 1, 0.01, 99.5, 1234.5678, round(r.uniform(0.0001, 5000.0), r.randint(0, 6)) or 0.5])
    # separate stream: prices whose repr() uses an exponent (sub-1e-4 and huge magnitudes)
    rt = random.Random(seed ^ 0xC17E5)
    if rt.random() < 0.08:
        price = rt.choice([1.234e-05, 2.5e-07, 5e-05, 9.87654321e-06, 1e-10])  # (huge magnitudes would absorb the harness's own price + 1.0 replace step)
    # separate stream: quantities of extreme magnitude (one more unit is a relative change below 1e-9; sub-1e-4
    # quantities print with an exponent) and an exchange that gives the replacement order an OrderID of its own
    rq = random.Random(seed ^ 0xC17A9)
    x = rq.random()
    if x < 0.04:
        qty = rq.choice([5e9, 123456789012.0, 2.0 ** 40])
    elif x < 0.07:
        qty = rq.choice([1.2e-06, 2.5e-07, 7.5e-05])
    new_oid_on_replace = rq.random() < 0.3
    direct_requests = rt.random() < 0.3
    noop_replaces = rt.random() < 0.25
    weights = {}
    for k in ACTION_KINDS:
        mult = r.choice([0.0, 0.3, 1.0, 1.0, 1.0, 3.0])
        if mult == 0.0 and k in NEVER_ZERO:
            mult = 0.3
        weights[k] = round(BASE_WEIGHTS.get(half, BASE_WEIGHTS["c17"])[k] * mult, 3)
    cfg = dict(
        seed=seed,
        half=half,
        root=make_root(r, exotic=r.random() < 0.03),
        ticker=r.choice(["US.F.TICKER", "ES", "BTC/USD", "x"]),
        side=r.choice(["1", "2"]),
        price=price,
        qty=qty,
        grid=grid,
        avoid_rejects=r.random() < 0.4,
        suspend_leaves_zero=r.random() < 0.5,
        max_actions=r.randint(6, 30),
        weights=weights,
        p_new_reject=r.choice([0.0, 0.03, 0.03, 0.15]),
        p_pend=r.choice([0.0, 0.3, 0.5, 0.5, 0.9]),
        p_hold=r.choice([0.0, 0.2, 0.3, 0.6]),
        p_reject=r.choice([0.1, 0.3, 0.3, 0.6]),
        p_full_fill=r.choice([0.0, 0.05, 0.15, 0.4] if half == "c17" else [0.0, 0.03, 0.1, 0.25]),
        settle_decision="accept",  # a reject is always an explicit action of the trace
        pick=r.randint(0, 5),
        lenient_reject_orderid=r.random() < 0.5,
        # the helper validates what it fabricates itself (it is given the schema); the
        # oracle validates again, independently of the helper's own call, in these runs
        revalidate=(tier == "thorough") or r.random() < 0.125,
        direct_requests=direct_requests,
        noop_replaces=noop_replaces,
        new_oid_on_replace=new_oid_on_replace,
    )
    return cfg


# ====================================================================== common machine
class _MachineBase:
    CLAUSE = "C17"

    def __init__(self, cfg, trace=None):
        self.cfg = cfg
        self.script = None if trace is None else [list(a) for a in (trace.get("actions") or [])]
        self.rng = random.Random(cfg["seed"] ^ 0x0DE12)
        self.avoid = bool(cfg.get("avoid_rejects"))
        self.grid = cfg.get("grid", "bin")
        self.root = cfg["root"]
        self.order = FIXNewOrderSingle(
            cfg["root"], cfg.get("ticker", "T"), side=FOrdSide(cfg.get("side", "1")),
            price=cfg["price"], qty=cfg["qty"],
        )
        self.ex = RefExchange(self.grid, bool(cfg.get("suspend_leaves_zero")))
        self.ex.new_oid_on_replace = bool(cfg.get("new_oid_on_replace"))
        self.executed = []
        self.violation = None
        self.faults = collections.Counter()
        self.probes = collections.Counter()
        self.abs_states = set()
        self.h_msgs = hashlib.blake2b(digest_size=8)
        self.h_kinds = hashlib.blake2b(digest_size=8)
        self.used_ids = set()
        self.outstanding = None
        self.last_label = "none"
        self.last_to = None
        self.reject_since_request = False
        self.had_reject = False
        self.last_to_reject = None
        self.had_replaced = False
        self.was_suspended = False
        self.new_sent = False
        self.cc = False
        self.cr = False
        self.log = []
        self.stop_reason = "quiescent"

    # ---- helpers
    def after(self):
        s = "after=" + self.last_label
        if self.last_label == "cancel-reject":
            s += "/to=" + str(self.last_to)
        return s

    def after_req(self):
        """Discriminator for the request-building clauses: 'a cancel reject was
        processed since the last request' is the mechanism, whatever came after."""
        if self.reject_since_request:
            return "after=cancel-reject/to=" + str(self.last_to_reject)
        return self.after()

    def violate(self, candidates):
        """Several clauses may fail at the same step; which is reported is a run knob
        so that all of them are seen across a batch (a run stops at its first)."""
        if self.violation is not None or not candidates:
            return
        clause, sig, text = candidates[self.cfg.get("pick", 0) % len(candidates)]
        self.violation = dict(clause=clause, signature=sig, text=text)

    def note_msg(self, direction, m):
        self.h_msgs.update((direction + msg_text(m) + "\n").encode("utf-8", "replace"))

    def abs_state(self):
        st = self.order.status
        key = f"{st}|{self.ex.status()}|{self.ex.held is not None}|{self.ex.suspended}|{self.qlens()}"
        self.abs_states.add(zlib.crc32(key.encode()))

    def qlens(self):
        return ""

    def fill_amount(self, k):
        rem = self.ex.remaining()
        if k == "full":
            return rem
        frac = max(1, min(7, int(k))) / 8.0
        step = 0.1 if self.grid == "dec" else 0.125
        amt = quant(self.grid, rem * frac)
        if amt <= 0:
            amt = step
        return min(amt, rem)

    def replace_values(self, pmode, qmode):
        """New (price, qty) from the *client's* view of the order; never 'no change'."""
        o = self.order
        g = self.grid
        step = 0.1 if g == "dec" else 0.125
        price = o.price
        if pmode == "up":
            price = round(o.price * 1.5 + 0.25, 6)
        elif pmode == "down":
            price = round(o.price / 2.0, 8) or o.price
        qty = o.qty
        cum = o.cum_qty
        if qmode == "up":
            qty = quant(g, o.qty + max(step, quant(g, o.qty / 4.0)))
        elif qmode == "down":
            qty = quant(g, o.qty / 2.0)
        elif qmode == "below_cum":
            qty = quant(g, cum / 2.0) if cum > 0 else quant(g, o.qty / 2.0)
        elif qmode == "eq_cum":
            qty = cum if cum > 0 else quant(g, o.qty + step)
        elif qmode == "above_cum":
            qty = quant(g, cum + max(step, quant(g, (o.qty - cum) / 2.0)))
        elif qmode == "tick":
            qty = o.qty + 1.0  # one unit more: a tiny relative change of a big quantity is still a change
        if not qty or qty <= 0:
            qty = o.qty
        if price == o.price and qty == o.qty:
            price = round(o.price + 1.0, 6)
        return price, qty

    def client_may_request(self, kind):
        """Generator-side restriction for avoid_rejects runs: no request that the
        exchange could only reject (it peeks at the exchange; the oracle does not)."""
        if not self.avoid:
            return True
        if self.ex.phase != "L":
            return False
        if kind == "replace" and self.ex.suspended:
            return False
        return True

    def restricted(self):
        """avoid_rejects run with a cancel/replace unanswered: nothing may happen that
        would leave the exchange no choice but to reject it."""
        return self.avoid and (self.ex.held is not None or (
            self.outstanding is not None and self.outstanding["kind"] != "new"))

    def exchange_may(self, event, full=None):
        """full=None: 'is any fill allowed'; full=True/False: this particular one."""
        if not self.ex.can(event):
            return False
        if self.restricted():
            if event in ("expire", "unsol_cancel", "late_reject", "suspend"):
                return False
            if event == "fill":
                if full is None:
                    return self.fill_amount(1) < self.ex.remaining()
                return not full
        return True

    def choose_fill(self):
        r, c = self.rng, self.cfg
        if self.restricted():
            ks = [k for k in range(1, 8) if self.fill_amount(k) < self.ex.remaining()]
            return r.choice(ks)
        if r.random() < c["p_full_fill"]:
            return "full"
        return r.randint(1, 7)

    def result(self, want_sample=False):
        o = self.order
        res = dict(
            seed=self.cfg["seed"], family="order", violation=self.violation,
            trace={"actions": [list(a) for a in self.executed], "inline": {}},
            config=self.cfg, digest=self.h_msgs.hexdigest(), ileave=self.h_kinds.hexdigest(),
            faults=dict(self.faults), probes=dict(self.probes), stats={},
            abs_states=sorted(self.abs_states), handles=0, actions=len(self.executed), evaluations=1,
            sim_seconds=0.0, stop_reason=self.stop_reason,
            nontrivial=len(self.executed) >= 4 and self.ex.acked, dead_tasks=[],
        )
        if want_sample:
            res["sample"] = dict(
                seed=self.cfg["seed"], half=self.cfg.get("half"), actions=[list(a) for a in self.executed],
                final=dict(
                    client=dict(status=str(o.status), cum=o.cum_qty, leaves=o.leaves_qty, price=o.price,
                                qty=o.qty, clord_id=o.clord_id),
                    exchange=dict(status=self.ex.status(), cum=self.ex.cum, leaves=self.ex.leaves(),
                                  price=self.ex.price, qty=self.ex.qty, live_id=self.ex.live_id),
                ),
            )
        return res


# ================================================================================ C17
class OrderMachine(_MachineBase):
    """C17: order object vs RefExchange over two FIFO queues."""

    def __init__(self, cfg, trace=None):
        super().__init__(cfg, trace)
        self.c2e = collections.deque()
        self.e2c = collections.deque()

    def qlens(self):
        return f"{min(len(self.c2e), 3)}/{min(len(self.e2c), 3)}"

    # ------------------------------------------------------------------ oracle
    def check_client(self):
        """Every-step clauses, evaluated whenever the order object was touched."""
        o = self.order
        vs = []
        st = o.status
        if type(st) is not FOrdStatus:
            vs.append(("status-is-enum-member", f"C17/status-not-enum/{self.after()}",
                       f"order.status is {st!r} ({type(st).__name__}), not an FOrdStatus member, "
                       f"after processing {self.last_label}"))
        flags = {}
        for name in ("cancel", "replace"):
            try:
                flags[name] = bool(getattr(o, "can_" + name)())
            except Exception as e:
                flags[name] = False
                vs.append(("gating-total", f"C17/can_{name}-raises/{type(e).__name__}/{self.after()}",
                           f"can_{name}() raised {e!r}"))
        self.cc, self.cr = flags["cancel"], flags["replace"]
        if (self.cc or self.cr) and self.outstanding is not None:
            which = "cancel" if self.cc else "replace"
            vs.append(("one-request-outstanding",
                       f"C17/request-permitted-while-outstanding/can={which}/outstanding={self.outstanding['kind']}/{self.after()}",
                       f"can_{which}() is true while request {self.outstanding['id']!r} ({self.outstanding['kind']}) "
                       f"is still unanswered; status={st!r}"))
        elif self.violation is None:
            if self.cc:
                self._trial("cancel", vs)
            if self.cr:
                self._trial("replace", vs)
        self.violate(vs)

    def _trial(self, kind, vs):
        """can_X() is true => building X succeeds, fresh 11, 41 = live id.  Built on a
        shallow copy so the real order is not disturbed."""
        c = copy.copy(self.order)
        try:
            m = c.cancel_req() if kind == "cancel" else c.replace_req(price=self.order.price + 1.0)
        except Exception as e:
            vs.append(("request-builds", f"C17/can_{kind}-true-but-{kind}_req-raises/{type(e).__name__}/{self.after_req()}",
                       f"can_{kind}() is true (status={self.order.status!r}) but {kind}_req() raised {e!r}"))
            return
        self._check_ids(kind, m, vs)

    def _check_ids(self, kind, m, vs):
        id11, id41 = m.get(11, None), m.get(41, None)
        if id11 is None or id11 in self.used_ids:
            vs.append(("fresh-clordid", f"C17/clordid-reused/req={kind}/{self.after_req()}",
                       f"{kind} request would use ClOrdID {id11!r}, already used in this run: {sorted(self.used_ids)}"))
        elif not id11.startswith(self.root + "--"):
            vs.append(("fresh-clordid", f"C17/clordid-root-changed/req={kind}",
                       f"{kind} request ClOrdID {id11!r} does not chain from root {self.root!r}"))
        if not self.e2c:
            if id41 != self.ex.live_id:
                vs.append(("refers-to-live-id", f"C17/origclordid-not-live/req={kind}/{self.after_req()}",
                           f"{kind} request has 41={id41!r} but the order is live at the exchange under "
                           f"{self.ex.live_id!r} (nothing in flight)"))
        elif id41 not in self.used_ids:
            vs.append(("refers-to-live-id", f"C17/origclordid-never-used/req={kind}/{self.after_req()}",
                       f"{kind} request has 41={id41!r}, which the client never used: {sorted(self.used_ids)}"))

    def quiescent(self):
        return (not self.c2e and not self.e2c and self.ex.held is None and self.outstanding is None
                and self.ex.phase is not None)

    def check_quiescent(self):
        if self.violation is not None or not self.quiescent():
            return
        self.probes["quiescent_points"] += 1
        o, ex = self.order, self.ex
        vs = []
        pairs = (("status", str(o.status), ex.status()), ("cum_qty", o.cum_qty, ex.cum),
                 ("leaves_qty", o.leaves_qty, ex.leaves()), ("price", o.price, ex.price), ("qty", o.qty, ex.qty))
        for name, a, b in pairs:
            if a != b:
                vs.append(("converges-at-quiescence", f"C17/diverged/field={name}/{self.after()}",
                           f"at quiescence order.{name}={a!r} but the exchange has {b!r} "
                           f"(client: status={o.status!r} cum={o.cum_qty} leaves={o.leaves_qty} px={o.price} qty={o.qty}; "
                           f"exchange: status={ex.status()} cum={ex.cum} leaves={ex.leaves()} px={ex.price} qty={ex.qty})"))
        if ex.finished():
            try:
                fin = bool(o.is_finished())
            except Exception as e:
                fin = None
                vs.append(("finished-is-finished", f"C17/is_finished-raises/{type(e).__name__}/{self.after()}", repr(e)))
            if fin is False:
                vs.append(("finished-is-finished", f"C17/finished-but-not-is_finished/{self.after()}",
                           f"exchange finished the order ({ex.status()}) but is_finished() is False (status={o.status!r})"))
            if self.cc:
                vs.append(("finished-refuses-requests", f"C17/finished-but-can_cancel/{self.after()}",
                           f"exchange finished the order ({ex.status()}) but can_cancel() is True (status={o.status!r})"))
            if self.cr:
                vs.append(("finished-refuses-requests", f"C17/finished-but-can_replace/{self.after()}",
                           f"exchange finished the order ({ex.status()}) but can_replace() is True (status={o.status!r})"))
            # a finished order refuses every request builder (tried on a copy, the order itself is not disturbed)
            import copy

            for kind, call in (("new", lambda c: c.new_req()), ("cancel", lambda c: c.cancel_req()),
                               ("replace", lambda c: c.replace_req(price=c.price + 1.0))):
                try:
                    c = copy.deepcopy(o)
                    m = call(c)
                except Exception:
                    continue
                vs.append(("finished-refuses-requests", f"C17/finished-order-builds-request/req={kind}/status={ex.status()}",
                           f"exchange finished the order ({ex.status()}) but {kind}_req() built {msg_text(m)} "
                           f"(order status afterwards {c.status!r})"))
            self.probes["finished_order_request_builders_probed"] += 1
        self.violate(vs)

    # ------------------------------------------------------------------ plumbing
    def emit(self, specs, solicited):
        for s in specs:
            m = render_report(s)
            s["msg"] = m
            self.note_msg("E>C ", m)
            self.e2c.append(s)
            self.log.append(("exchange sends", s["label"], msg_text(m)))
        if not solicited:
            if self.c2e:
                self.faults["report_crossed_request_on_the_wire"] += len(specs)
            if self.outstanding is not None and self.outstanding["kind"] != "new":
                self.faults["exchange_event_while_request_unanswered"] += 1

    def send(self, kind, m):
        id11 = m.get(11, None)
        pre = []
        if kind != "new":
            self._check_ids(kind, m, pre)
        self.used_ids.add(id11)
        self.outstanding = dict(kind=kind, id=id11)
        self.c2e.append(req_from_msg(kind, m))
        self.note_msg("C>E ", m)
        self.log.append(("client sends", kind, msg_text(m)))
        if self.e2c:
            self.faults["request_sent_with_reports_in_flight"] += 1
        if kind != "new":
            if self.had_reject:
                self.probes["second_request_after_reject"] += 1
            if kind == "cancel" and self.had_replaced:
                self.probes["cancel_after_replace_accepted"] += 1
            if self.order.status == FOrdStatus.PENDING_CANCEL and self.was_suspended:
                self.probes["request_on_order_seen_suspended"] += 1
        self.reject_since_request = False
        self.violate(pre)
        self.check_client()

    # ------------------------------------------------------------------ actions
    def a_new(self, act):
        if self.new_sent:
            return None
        self.new_sent = True
        try:
            m = self.order.new_req()
        except Exception as e:
            self.violate([("request-builds", f"C17/new_req-raises/{type(e).__name__}", f"new_req() raised {e!r}")])
            return ["new"]
        id11 = m.get(11, None)
        if id11 is None or not id11.startswith(self.root + "--"):
            self.violate([("fresh-clordid", "C17/clordid-root-changed/req=new",
                           f"new order ClOrdID {id11!r} does not chain from root {self.root!r}")])
        self.send("new", m)
        return ["new"]

    def a_cancel(self, act):
        if not self.new_sent or not self.cc or not self.client_may_request("cancel"):
            return None
        try:
            m = self.order.cancel_req()
        except Exception as e:
            self.violate([("request-builds", f"C17/can_cancel-true-but-cancel_req-raises/{type(e).__name__}/{self.after_req()}",
                           f"cancel_req() raised {e!r}")])
            return ["cancel"]
        self.send("cancel", m)
        return ["cancel"]

    def a_replace(self, act):
        if not self.new_sent or not self.cr or not self.client_may_request("replace"):
            return None
        pmode = act[1] if len(act) > 1 and act[1] in PMODES else "up"
        qmode = act[2] if len(act) > 2 and act[2] in QMODES else "same"
        price, qty = self.replace_values(pmode, qmode)
        try:
            m = self.order.replace_req(price, qty)
        except Exception as e:
            self.violate([("request-builds", f"C17/can_replace-true-but-replace_req-raises/{type(e).__name__}/{self.after_req()}",
                           f"replace_req({price}, {qty}) raised {e!r}")])
            return ["replace", pmode, qmode]
        self.send("replace", m)
        return ["replace", pmode, qmode]

    def a_foreign_report(self, act):
        """An execution report / cancel reject of ANOTHER order is handed to this one (a dispatch slip of the
        application): documented FIXError - and the order object is exactly what it was."""
        if not self.new_sent or self.ex.phase is None:
            return None
        o = self.order
        how = act[1] if len(act) > 1 and act[1] in ("exec", "exec_fill") else "exec"
        names = ("clord_id", "orig_clord_id", "status", "order_id", "cum_qty", "leaves_qty", "avg_px", "price", "qty")
        before = tuple(getattr(o, n) for n in names)
        spec = dict(self.ex._exec("foreign", E_TRADE if how == "exec_fill" else E_NEW, S_PF if how == "exec_fill" else S_NEW,
                                  "someone-elses-order--1"))
        self.ex.n_exec -= 1  # (not a report of this exchange order: its ExecID sequence is not consumed)
        spec.update(order_id="X-OTHER", cum=spec["qty"] / 2.0, leaves=spec["qty"] / 2.0, avg_px=77.5,
                    last=(spec["qty"] / 2.0 if how == "exec_fill" else None))
        m = render_report(spec)
        self.probes["foreign_report_handed_to_the_order"] += 1
        try:
            o.process_execution_report(m)
            refused = False
        except FIXError:
            refused = True
        except Exception as e:
            self.violate([("report-processing-total", f"C17/foreign-report-raises/{type(e).__name__}/{self.after()}",
                           f"a report of another order raised {e!r}, not the documented FIXError")])
            return ["foreign_report", how]
        after = tuple(getattr(o, n) for n in names)
        if not refused:
            self.violate([("foreign-report-refused", f"C17/foreign-report-accepted/{self.after()}",
                           f"the order processed a report addressed to ClOrdID 'someone-elses-order--1': {msg_text(m)}")])
        elif after != before:
            diff = [f"{n}: {b!r} -> {a!r}" for n, b, a in zip(names, before, after) if a != b]
            self.violate([("refused-report-is-neutral", f"C17/refused-report-changed-the-order/{diff[0].split(':')[0]}/{self.after()}",
                           f"the order refused a report of another order but changed: {diff}")])
        return ["foreign_report", how]

    def a_noop_replace(self, act):
        """The application asks for a replace that changes nothing: documented FIXError, nothing is sent - and the
        order object is exactly what it was (in particular its ClOrdID chain)."""
        if not self.new_sent or not self.cr or not self.client_may_request("replace"):
            return None
        o = self.order
        how = act[1] if len(act) > 1 and act[1] in ("same", "nan") else "same"
        before = (o.clord_id, o.orig_clord_id, o.status, o.price, o.qty, o.cum_qty, o.leaves_qty)
        try:
            if how == "nan":
                m = o.replace_req()
            else:
                m = o.replace_req(o.price, o.qty)
        except FIXError:
            m = None
        except Exception as e:
            self.violate([("request-builds", f"C17/no-change-replace-raises/{type(e).__name__}/{self.after_req()}",
                           f"replace_req() without a change raised {e!r}, not the documented FIXError")])
            return ["noop_replace", how]
        self.probes["no_change_replace_attempted"] += 1
        after = (o.clord_id, o.orig_clord_id, o.status, o.price, o.qty, o.cum_qty, o.leaves_qty)
        if m is not None:
            self.violate([("request-builds", f"C17/no-change-replace-built-a-request/{self.after_req()}",
                           f"replace_req() without any change built {msg_text(m)}")])
        elif after != before:
            names = ("clord_id", "orig_clord_id", "status", "price", "qty", "cum_qty", "leaves_qty")
            diff = [f"{n}: {b!r} -> {a!r}" for n, b, a in zip(names, before, after) if a != b]
            self.violate([("refused-request-is-neutral", f"C17/refused-replace-changed-the-order/{diff[0].split(':')[0]}/{self.after_req()}",
                           f"replace_req() refused the request (no change) but the order object changed: {diff}")])
        return ["noop_replace", how]

    def a_handle(self, act):
        if not self.c2e or self.ex.held is not None:
            return None
        req = self.c2e.popleft()
        pend = bool(act[1]) if len(act) > 1 else False
        dec = act[2] if len(act) > 2 else "accept"
        try:
            if req["kind"] == "new":
                specs, dec = self.ex.on_new(req, pend, dec)
                if dec == "reject":
                    self.probes["reject_of_new"] += 1
            else:
                if req["kind"] == "replace" and self.ex.phase is not None:
                    q = float(req["38"])
                    if q < self.ex.cum:
                        self.probes["replace_qty_below_cum"] += 1
                    elif q == self.ex.cum and q > 0:
                        self.probes["replace_qty_equals_cum"] += 1
                was_filled = self.ex.phase == S_FILLED
                dead = self.ex.phase != "L"
                specs, dec, pend = self.ex.on_request(req, pend, dec, self.avoid)
                if dead and dec == "reject":
                    self.probes["too_late_request_rejected"] += 1
                if was_filled and dec != "reject":
                    self.probes["filled_order_revived_by_replace"] += 1
                if self.ex.suspended:
                    self.probes["request_handled_while_suspended"] += 1
        except ModelRefusal as e:
            self.violate([("refers-to-live-id", f"C17/{e.what}/req={req['kind']}/{self.after_req()}", str(e))])
            return ["handle", int(pend), dec]
        self.emit(specs, solicited=True)
        return ["handle", int(pend), dec]

    def a_resolve(self, act):
        if self.ex.held is None:
            return None
        dec = act[1] if len(act) > 1 else "accept"
        specs, dec = self.ex.resolve(dec, self.avoid)
        self.emit(specs, solicited=True)
        return ["resolve", dec]

    def a_fill(self, act):
        k = act[1] if len(act) > 1 else 4
        if k != "full":
            try:
                k = int(k)
            except (TypeError, ValueError):
                k = 4
        if not self.ex.can("fill"):
            return None
        amt = self.fill_amount(k)
        full = amt >= self.ex.remaining()
        if not self.exchange_may("fill", full=full):
            return None
        if self.ex.held is not None:
            self.probes["fill_while_pending_" + self.ex.held["kind"]] += 1
        if self.c2e or self.ex.held is not None:
            self.faults["fill_while_request_pending"] += 1
        specs = self.ex.fill(amt)
        if self.ex.phase == S_FILLED:
            self.probes["filled"] += 1
            if self.c2e or self.ex.held is not None:
                self.probes["filled_while_request_pending"] += 1
        self.emit(specs, solicited=False)
        return ["fill", k]

    def _spont(self, name, probe):
        if not self.exchange_may(name):
            return None
        specs = getattr(self.ex, name)()
        self.probes[probe] += 1
        self.emit(specs, solicited=False)
        return [name]

    def a_expire(self, act):
        return self._spont("expire", "expire")

    def a_suspend(self, act):
        return self._spont("suspend", "suspend")

    def a_resume(self, act):
        return self._spont("resume", "suspend_resume")

    def a_unsol_cancel(self, act):
        return self._spont("unsol_cancel", "unsolicited_cancel")

    def a_late_reject(self, act):
        return self._spont("late_reject", "reject_of_acknowledged_order")

    def a_deliver(self, act):
        if not self.e2c:
            return None
        s = self.e2c.popleft()
        m = s["msg"]
        o = self.order
        prev_after = self.after()
        try:
            if s["t"] == "8":
                o.process_execution_report(m)
            else:
                o.process_cancel_rej_report(m)
        except Exception as e:
            self.violate([("processes-exchange-reports",
                           f"C17/report-refused/{type(e).__name__}/report={s['label']}/{prev_after}",
                           f"order refused the exchange's {s['label']} report [{msg_text(m)}]: {e!r} "
                           f"(order: status={o.status!r} clord_id={o.clord_id!r})")])
        if s["t"] == "8" and self.violation is None:
            # the channel is FIFO and every execution report states the order's quantities as of its emission: after
            # processing it the object's CumQty / LeavesQty are the report's (only the *status* of a report that
            # crosses a pending request is left aside on purpose)
            want = (float(m[14]), float(m[151]))
            have = (o.cum_qty, o.leaves_qty)
            if have != want:
                self.violate([("converges-at-quiescence", f"C17/report-quantities-not-taken-over/report={s['label']}/{prev_after}",
                               f"after processing {s['label']} [{msg_text(m)}] the order has cum={have[0]} leaves={have[1]}, "
                               f"the report says CumQty={want[0]} LeavesQty={want[1]}")])
        self.last_label = s["label"]
        self.last_to = s.get("to")
        if s["t"] == "9":
            self.had_reject = True
            self.reject_since_request = True
            self.last_to_reject = s.get("to")
            self.probes["cancel_reject_processed"] += 1
        elif s["label"] == "replaced":
            self.had_replaced = True
        elif s["label"] == "suspend":
            self.was_suspended = True
        if s.get("final_for") is not None and self.outstanding is not None and self.outstanding["id"] == s["final_for"]:
            self.outstanding = None
        self.log.append(("client processes", s["label"], f"-> status={o.status!r} cum={o.cum_qty} leaves={o.leaves_qty}"))
        self.check_client()
        return ["deliver"]

    # ------------------------------------------------------------------ driving
    def apply(self, act):
        fn = getattr(self, "a_" + str(act[0]), None) if act else None
        if fn is None:
            return False
        done = fn(act)
        if done is None:
            return False
        self.executed.append(done)
        self.h_kinds.update(done[0].encode() + b";")
        self.abs_state()
        self.check_quiescent()
        return True

    def enabled_kinds(self):
        ex = self.ex
        ks = []
        if not self.new_sent:
            ks.append("new")
        else:
            if self.cc and self.client_may_request("cancel"):
                ks.append("cancel")
            if self.cr and self.client_may_request("replace"):
                ks.append("replace")
                if self.cfg.get("noop_replaces"):
                    ks.append("noop_replace")
        if self.c2e and ex.held is None:
            ks.append("handle")
        if ex.held is not None:
            ks.append("resolve")
        if ex.phase == "L":
            for ev in ("fill", "expire", "suspend", "resume", "unsol_cancel", "late_reject"):
                if self.exchange_may(ev):
                    ks.append(ev)
        if self.e2c:
            ks.append("deliver")
        if self.new_sent and ex.phase is not None and self.cfg.get("noop_replaces"):
            ks.append("foreign_report")
        return ks

    def choose(self):
        ks = self.enabled_kinds()
        if not ks:
            return None
        w = self.cfg["weights"]
        ws = [w.get(k, 1.0) for k in ks]
        if sum(ws) <= 0:
            ws = [1.0] * len(ks)
        r = self.rng
        k = r.choices(ks, ws)[0]
        c = self.cfg
        if k == "replace":
            return [k, r.choice(PMODES), r.choice(QMODES)]
        if k == "noop_replace":
            return [k, r.choice(("same", "same", "nan"))]
        if k == "foreign_report":
            return [k, r.choice(("exec", "exec_fill"))]
        if k == "handle":
            pend = int(r.random() < c["p_pend"])
            if self.c2e[0]["kind"] == "new":
                return [k, pend, "reject" if r.random() < c["p_new_reject"] else "ack"]
            x = r.random()
            if x < c["p_hold"]:
                dec = "hold"
            elif r.random() < c["p_reject"]:
                dec = "reject"
            else:
                dec = "accept"
            return [k, pend, dec]
        if k == "resolve":
            return [k, "reject" if r.random() < c["p_reject"] else "accept"]
        if k == "fill":
            return [k, self.choose_fill()]
        return [k]

    def settle(self):
        """Deterministic: deliver everything, answer the next request, repeat."""
        guard = 0
        dec = self.cfg.get("settle_decision", "accept")
        while self.violation is None:
            guard += 1
            if guard > 200:
                raise RuntimeError("order machine does not settle")
            if self.e2c:
                self.apply(["deliver"])
            elif self.c2e and self.ex.held is None:
                self.apply(["handle", 0, dec])
            elif self.ex.held is not None:
                self.apply(["resolve", dec])
            else:
                break

    def run(self, want_sample=False):
        if self.script is None:
            n = self.cfg["max_actions"]
            while len(self.executed) < n and self.violation is None:
                act = self.choose()
                if act is None:
                    break
                if not self.apply(act):
                    raise RuntimeError(f"chooser picked an action that is not enabled: {act}")
        else:
            for act in self.script:
                if self.violation is not None:
                    break
                self.apply(act)  # not enabled -> skipped
        n_script = len(self.executed)
        self.settle()
        if self.violation is None and self.ex.phase is not None and not self.quiescent():
            raise RuntimeError("settle phase ended without quiescence")
        self.stop_reason = "violation" if self.violation is not None else "quiescent"
        res = self.result(want_sample)
        res["stats"] = {"settle_actions": len(self.executed) - n_script}
        return res


# =============================================================================== C20a
_SCHEMA = None


def fix44_schema():
    """tests/FIX44.xml of the tree under test, parsed once per process."""
    global _SCHEMA
    if _SCHEMA is None:
        from asyncfix.protocol.schema import FIXSchema

        root = os.path.dirname(os.path.dirname(os.path.abspath(asyncfix.__file__)))
        path = os.path.join(root, "tests", "FIX44.xml")
        if not os.path.exists(path):
            path = "/repo/tests/FIX44.xml"
        _SCHEMA = FIXSchema(path)
    return _SCHEMA


def _raised_in_helper(exc):
    """True when the exception was raised by a statement of fix_tester.py itself
    (the helper's own argument assertions), not somewhere below it."""
    tb = traceback.extract_tb(exc.__traceback__)
    return bool(tb) and os.path.basename(tb[-1].filename) == "fix_tester.py"


class HelperRefused(Exception):
    pass


class C20aMachine(_MachineBase):
    """C20 (a): RefExchange decides what happens, FIXTester fabricates the reports,
    the order object processes them immediately (lock-step)."""

    CLAUSE = "C20"

    def __init__(self, cfg, trace=None):
        super().__init__(cfg, trace)
        from asyncfix import FIXTester

        self.schema = fix44_schema()
        self.ft = FIXTester(schema=self.schema)
        self.ft.order_register_single(self.order)
        self.exec_ids = set()
        self.order_id_seen = None
        self.lenient_rej_oid = bool(cfg.get("lenient_reject_orderid"))
        self.revalidate = bool(cfg.get("revalidate", True))
        self.cur_req = None
        # requests built by the order object itself (as an application sending through a connection does) instead
        # of through the helper's fix_cxl_request / fix_rep_request wrappers: the helper's answers to them are
        # "argument combinations the helper accepts" just the same
        self.direct = bool(cfg.get("direct_requests"))
        self.other = None

    def quiescent(self):
        return self.ex.held is None and self.ex.phase is not None

    # ---- fabrication
    def fabricate(self, s, bits):
        """Report spec -> helper arguments (seeded equivalent spellings) -> message."""
        o = self.order
        if s["t"] == "9":
            return self.ft.fix_cxlrep_reject_msg(self.cur_req, FOrdStatus(s["ord_status"]))
        explicit = bool(bits & 1)
        with_orig = bool(bits & 2)
        new_id_for_fill = bool(bits & 4)
        with_avg = bool(bits & 8)
        et, st = FExecType(s["exec_type"]), FOrdStatus(s["ord_status"])
        clord = s["clord"]
        if s["label"] == "fill-pending" and new_id_for_fill and o.clord_id != clord:
            clord = o.clord_id  # the repo's B.1.b test reports such fills under the new id
            self.probes["fill_reported_under_new_id"] += 1
        kw = {}
        trade = s["last"] is not None
        if trade or explicit or s["cum"] != o.cum_qty:
            kw["cum_qty"] = s["cum"]
        if trade or explicit or s["leaves"] != o.leaves_qty:
            kw["leaves_qty"] = s["leaves"]
        if s["ord_status"] in FINISHED and "leaves_qty" in kw and o.leaves_qty and not trade \
                and (bits * 7 + len(self.executed)) % 5 == 0:
            # the caller relies on the default although the order still has LeavesQty: the helper's own
            # assertion must refuse this (probe); fabricating a finished report with LeavesQty != 0 is invalid
            del kw["leaves_qty"]
            self.probes["finished_report_with_defaulted_leaves_attempted"] += 1
        if trade:
            kw["last_qty"] = s["last"]
        if s["exec_type"] == E_REPLACED:
            if explicit or s["price"] != o.price:
                kw["price"] = s["price"]
            if explicit or s["qty"] != o.qty:
                kw["order_qty"] = s["qty"]
        if s["orig"] and with_orig:
            kw["orig_clord_id"] = s["orig"]
        if with_avg:
            kw["avg_price"] = s["avg_px"]
        return self.ft.fix_exec_report_msg(o, clord, et, st, **kw)

    def deliver_specs(self, specs, bits):
        for i, s in enumerate(specs):
            if self.violation is not None:
                return
            self.one_report(s, (bits >> (4 * i)) & 15)

    def one_report(self, s, bits):
        o = self.order
        what = f"exec_type={s['exec_type']}" if s["t"] == "8" else "msg=cancel-reject"
        try:
            m = self.fabricate(s, bits)
        except AssertionError as e:
            if _raised_in_helper(e):
                self.probes["helper_refused_arguments"] += 1
                raise HelperRefused(str(e))
            tb = traceback.extract_tb(e.__traceback__)
            where = os.path.basename(tb[-1].filename) if tb else "?"
            self.violate([("helper-fabricates-valid-reports", f"C20/helper-report-invalid/AssertionError-in-{where}/{what}",
                           f"helper call for {s['label']} died on an assertion outside the helper: {e!r}")])
            return
        except Exception as e:
            detail = type(e).__name__
            mt = re.search(r"tag=(\d+)|Field=(\w+)|field=SchemaField\((\w+)", str(e))
            if mt:
                detail += "/" + next(g for g in mt.groups() if g)
            self.violate([("helper-fabricates-valid-reports", f"C20/helper-report-invalid/{detail}/{what}/{self.after()}",
                           f"helper accepted the arguments for {s['label']} but raised {e!r}")])
            return
        self.note_msg("E>C ", m)
        self.log.append(("helper fabricates", s["label"], msg_text(m)))
        vs = []
        if self.revalidate:
            try:
                self.schema.validate(m)
            except Exception as e:
                vs.append(("helper-fabricates-valid-reports", f"C20/helper-report-invalid/{type(e).__name__}/{what}",
                           f"{s['label']} [{msg_text(m)}] does not validate: {e!r}"))
        oid = m.get(37, None)
        if s["t"] == "8":
            try:
                cum, leaves, qty = float(m[14]), float(m[151]), float(m[38])
                if cum + leaves > qty:
                    vs.append(("quantities-consistent", f"C20/cum-plus-leaves-exceeds-qty/{what}",
                               f"{s['label']}: CumQty {cum} + LeavesQty {leaves} > OrderQty {qty}"))
                if s["label"] in ("pending-new", "new") and qty != float(self.cfg["qty"]):
                    # the acknowledgement restates the order as it was requested (no amendment can have happened yet)
                    vs.append(("quantities-consistent", f"C20/acknowledged-orderqty-differs-from-requested/{what}",
                               f"{s['label']}: OrderQty(38)={m[38]} but the order was created with qty={self.cfg['qty']!r}"))
                if m[39] in FINISHED and leaves != 0:
                    vs.append(("quantities-consistent", f"C20/leaves-nonzero-on-finished/status={m[39]}",
                               f"{s['label']}: OrdStatus {m[39]} with LeavesQty {leaves}"))
            except Exception as e:
                vs.append(("quantities-consistent", f"C20/helper-report-invalid/{type(e).__name__}/{what}",
                           f"{s['label']} [{msg_text(m)}]: {e!r}"))
            eid = m.get(17, None)
            if eid is None or eid in self.exec_ids:
                vs.append(("fresh-execid", "C20/execid-reused", f"{s['label']}: ExecID {eid!r} already used"))
            self.exec_ids.add(eid)
            if self.order_id_seen is None:
                self.order_id_seen = oid
            elif oid != self.order_id_seen:
                vs.append(("stable-orderid", "C20/orderid-changed/msg=exec",
                           f"{s['label']}: OrderID {oid!r}, earlier reports of this order said {self.order_id_seen!r}"))
        elif not self.lenient_rej_oid and self.order_id_seen is not None and oid != self.order_id_seen:
            vs.append(("stable-orderid", "C20/orderid-changed/msg=cancel-reject",
                       f"OrderCancelReject carries OrderID {oid!r}, the execution reports of this order said "
                       f"{self.order_id_seen!r}"))
        prev_after = self.after_req() if self.reject_since_request else self.after()
        try:
            if s["t"] == "8":
                o.process_execution_report(m)
            else:
                o.process_cancel_rej_report(m)
        except Exception as e:
            vs.append(("order-accepts-helper-reports", f"C20/helper-report-breaks-order/{type(e).__name__}/{what}/{prev_after}",
                       f"order refused the helper's {s['label']} [{msg_text(m)}]: {e!r}"))
        self.last_label = s["label"]
        self.last_to = s.get("to")
        if s["t"] == "9":
            self.had_reject = True
            self.reject_since_request = True
            self.last_to_reject = s.get("to")
            self.probes["cancel_reject_processed"] += 1
        elif s["label"] == "replaced":
            self.had_replaced = True
        self.violate(vs)

    # ---- actions
    def _flags(self):
        o = self.order
        try:
            return bool(o.can_cancel()), bool(o.can_replace())
        except Exception:
            return False, False

    def _request(self, kind, build):
        try:
            m = build()
        except Exception as e:
            if isinstance(e, AssertionError) and _raised_in_helper(e):
                self.probes["helper_refused_arguments"] += 1
                raise HelperRefused(str(e))
            self.violate([("order-accepts-helper-reports",
                           f"C20/helper-request-fails/{type(e).__name__}/req={kind}/{self.after_req()}",
                           f"order permits {kind} (can_{kind}() true, status={self.order.status!r}) but the helper's "
                           f"request call raised {e!r}")])
            return None
        self.note_msg("C>E ", m)
        self.log.append(("client sends", kind, msg_text(m)))
        if self.had_reject:
            self.probes["second_request_after_reject"] += 1
        if kind == "cancel" and self.had_replaced:
            self.probes["cancel_after_replace_accepted"] += 1
        self.reject_since_request = False
        return m

    def a_new(self, act):
        if self.new_sent:
            return None
        self.new_sent = True
        pend = bool(act[1]) if len(act) > 1 else True
        dec = act[2] if len(act) > 2 else "ack"
        bits = int(act[3]) if len(act) > 3 else 0
        m = self.order.new_req()
        self.ft.order_register_single(self.order)
        self.note_msg("C>E ", m)
        specs, dec = self.ex.on_new(req_from_msg("new", m), pend, dec)
        if dec == "reject":
            self.probes["reject_of_new"] += 1
        self.deliver_specs(specs, bits)
        return ["new", int(pend), dec, bits]

    def _handle(self, kind, m, pend, dec, bits):
        req = req_from_msg(kind, m)
        self.cur_req = m
        if kind == "replace":
            q = float(req["38"])
            if q < self.ex.cum:
                self.probes["replace_qty_below_cum"] += 1
            elif q == self.ex.cum and q > 0:
                self.probes["replace_qty_equals_cum"] += 1
        try:
            specs, dec, pend = self.ex.on_request(req, pend, dec, self.avoid)
        except ModelRefusal as e:
            self.violate([("order-accepts-helper-reports", f"C20/{e.what}/req={kind}/{self.after_req()}", str(e))])
            return pend, dec
        self.deliver_specs(specs, bits)
        return pend, dec

    def a_cancel(self, act):
        cc, _ = self._flags()
        if not self.new_sent or not cc or not self.client_may_request("cancel"):
            return None
        pend = bool(act[1]) if len(act) > 1 else False
        dec = act[2] if len(act) > 2 else "accept"
        bits = int(act[3]) if len(act) > 3 else 0
        m = self._request("cancel", (lambda: self.order.cancel_req()) if self.direct else
                          (lambda: self.ft.fix_cxl_request(self.order)))
        if m is not None:
            pend, dec = self._handle("cancel", m, pend, dec, bits)
        return ["cancel", int(pend), dec, bits]

    def a_replace(self, act):
        _, cr = self._flags()
        if not self.new_sent or not cr or not self.client_may_request("replace"):
            return None
        pmode = act[1] if len(act) > 1 and act[1] in PMODES else "up"
        qmode = act[2] if len(act) > 2 and act[2] in QMODES else "same"
        pend = bool(act[3]) if len(act) > 3 else False
        dec = act[4] if len(act) > 4 else "accept"
        bits = int(act[5]) if len(act) > 5 else 0
        price, qty = self.replace_values(pmode, qmode)
        m = self._request("replace", (lambda: self.order.replace_req(price, qty)) if self.direct else
                          (lambda: self.ft.fix_rep_request(self.order, price, qty)))
        if m is not None:
            was_filled = self.ex.phase == S_FILLED
            pend, dec = self._handle("replace", m, pend, dec, bits)
            if was_filled and dec != "reject":
                self.probes["filled_order_revived_by_replace"] += 1
        return ["replace", pmode, qmode, int(pend), dec, bits]

    def a_resolve(self, act):
        if self.ex.held is None:
            return None
        dec = act[1] if len(act) > 1 else "accept"
        bits = int(act[2]) if len(act) > 2 else 0
        specs, dec = self.ex.resolve(dec, self.avoid)
        self.deliver_specs(specs, bits)
        return ["resolve", dec, bits]

    def a_fill(self, act):
        k = act[1] if len(act) > 1 else 4
        bits = int(act[2]) if len(act) > 2 else 0
        if k != "full":
            try:
                k = int(k)
            except (TypeError, ValueError):
                k = 4
        if not self.ex.can("fill"):
            return None
        amt = self.fill_amount(k)
        if not self.exchange_may("fill", full=amt >= self.ex.remaining()):
            return None
        if self.ex.held is not None:
            self.probes["fill_while_pending_" + self.ex.held["kind"]] += 1
            self.faults["fill_while_request_pending"] += 1
        specs = self.ex.fill(amt)
        if self.ex.phase == S_FILLED:
            self.probes["filled"] += 1
        self.deliver_specs(specs, bits)
        return ["fill", k, bits]

    def _spont(self, name, probe, act):
        if not self.exchange_may(name):
            return None
        bits = int(act[1]) if len(act) > 1 else 0
        specs = getattr(self.ex, name)()
        self.probes[probe] += 1
        self.deliver_specs(specs, bits)
        return [name, bits]

    def a_expire(self, act):
        return self._spont("expire", "expire", act)

    def a_suspend(self, act):
        return self._spont("suspend", "suspend", act)

    def a_resume(self, act):
        return self._spont("resume", "suspend_resume", act)

    def a_unsol_cancel(self, act):
        return self._spont("unsol_cancel", "unsolicited_cancel", act)

    def a_late_reject(self, act):
        return self._spont("late_reject", "reject_of_acknowledged_order", act)

    def a_bust(self, act):
        ex = self.ex
        if ex.phase != "L" or ex.suspended or ex.held is not None or ex.cum <= 0 or not self.new_sent:
            return None
        et = act[1] if len(act) > 1 and act[1] in ("H", "G", "D") else "H"
        k = int(act[2]) if len(act) > 2 else 8
        bits = int(act[3]) if len(act) > 3 else 0
        self.probes["trade_bust_or_correction_lowers_cumqty"] += 1
        self.deliver_specs(ex.bust(et, k), bits)
        return ["bust", et, k, bits]

    def a_foreign(self, act):
        """A second order lives on the same helper; one of ITS reports is handed to this order (a dispatch slip).
        The order refuses it - and everything the helper fabricates for this order afterwards (it takes OrderID and
        quantities from the order object) must be what it would have been."""
        if not self.new_sent or self.ex.phase is None or self.ex.held is not None:
            return None
        if self.other is None:
            self.other = FIXNewOrderSingle("zz-other-" + str(self.root)[:8], "OTHER", side=FOrdSide("1"), price=3.5, qty=40)
            self.other.new_req()
            self.ft.order_register_single(self.other)
        kind = act[1] if len(act) > 1 and act[1] in ("new", "trade") else "new"
        o2 = self.other
        try:
            if kind == "trade" and o2.status in (FOrdStatus.NEW, FOrdStatus.PARTIALLY_FILLED) and o2.leaves_qty >= 1:
                m = self.ft.fix_exec_report_msg(o2, o2.clord_id, FExecType.TRADE, FOrdStatus.PARTIALLY_FILLED,
                                                cum_qty=o2.cum_qty + 1, leaves_qty=o2.leaves_qty - 1, last_qty=1)
            else:
                m = self.ft.fix_exec_report_msg(o2, o2.clord_id, FExecType.NEW, FOrdStatus.NEW)
                o2.process_execution_report(m)
        except Exception:
            return ["foreign", kind]  # (the helper refused these arguments for the other order: nothing to hand over)
        self.exec_ids.add(m.get(17, None))
        self.probes["report_of_another_order_handed_over"] += 1
        try:
            self.order.process_execution_report(m)
            self.violate([("order-accepts-helper-reports", f"C20/foreign-report-accepted/{self.after()}",
                           f"the order processed a report the helper fabricated for another order: {msg_text(m)}")])
        except FIXError:
            pass
        except Exception as e:
            self.violate([("order-accepts-helper-reports", f"C20/helper-report-breaks-order/{type(e).__name__}/msg=foreign/{self.after()}",
                           f"a report of another order raised {e!r}, not the documented FIXError")])
        return ["foreign", kind]

    def a_reset_messages(self, act):
        """The test author empties the helper's message queues in the middle of a session (`reset_messages()`, as
        the repo's own tests do): identities handed out so far stay handed out."""
        if not self.new_sent:
            return None
        try:
            self.ft.reset_messages()
        except Exception as e:
            self.violate([("helper-fabricates-valid-reports", f"C20/reset_messages-raises/{type(e).__name__}", repr(e))])
        self.probes["helper_queues_reset_mid_session"] += 1
        return ["reset_messages"]

    def a_odd_reject(self, act):
        """While a request is held: the helper is asked for a cancel reject with an OrdStatus the order's state
        machine does not act upon (the helper accepts every OrdStatus).  The order ignores it - whatever the
        exchange answers afterwards under the request's ClOrdID must still be processed without error."""
        if self.ex.held is None or self.cur_req is None:
            return None
        st = act[1] if len(act) > 1 and act[1] in ("D", "B", "7", "3") else "D"
        import copy

        try:
            m = self.ft.fix_cxlrep_reject_msg(self.cur_req, FOrdStatus(st))
        except AssertionError as e:
            if _raised_in_helper(e):
                self.probes["helper_refused_arguments"] += 1
                return ["odd_reject", st]
            raise
        probe = copy.deepcopy(self.order)
        try:
            acted = probe.process_cancel_rej_report(m)
        except Exception:
            acted = None
        if acted is not False:
            return ["odd_reject", st]  # the state machine acts on this status: the regular reject path covers that
        self.note_msg("E>C ", m)
        self.log.append(("helper fabricates", "ignored-reject", msg_text(m)))
        try:
            self.order.process_cancel_rej_report(m)
        except Exception as e:
            self.violate([("order-accepts-helper-reports", f"C20/helper-report-breaks-order/{type(e).__name__}/msg=ignored-reject/{self.after()}",
                           f"order refused the helper's cancel reject with OrdStatus={st} [{msg_text(m)}]: {e!r}")])
        self.probes["cancel_reject_with_status_the_order_ignores"] += 1
        return ["odd_reject", st]

    def a_status(self, act):
        if self.ex.phase is None or self.ex.held is not None or not self.new_sent:
            return None
        bits = int(act[1]) if len(act) > 1 else 0
        self.probes["order_status_report"] += 1
        self.deliver_specs(self.ex.status_report(), bits)
        return ["status", bits]

    # ---- driving
    def apply(self, act):
        fn = getattr(self, "a_" + str(act[0]), None) if act else None
        if fn is None or act[0] in ("handle", "deliver"):
            return False
        done = fn(act)
        if done is None:
            return False
        self.executed.append(done)
        self.h_kinds.update(done[0].encode() + b";")
        self.abs_state()
        return True

    def enabled_kinds(self):
        ks = []
        if not self.new_sent:
            return ["new"]
        cc, cr = self._flags()
        if self.ex.held is None:
            if cc and self.client_may_request("cancel"):
                ks.append("cancel")
            if cr and self.client_may_request("replace"):
                ks.append("replace")
        else:
            ks.append("resolve")
            if self.cur_req is not None:
                ks.append("odd_reject")
        if self.ex.phase == "L":
            for ev in ("fill", "expire", "suspend", "resume", "unsol_cancel", "late_reject"):
                if self.exchange_may(ev):
                    ks.append(ev)
        if self.ex.phase is not None and self.ex.held is None:
            ks.append("status")
        if self.ex.phase == "L" and not self.ex.suspended and self.ex.held is None and self.ex.cum > 0:
            ks.append("bust")
        if self.ex.phase is not None and self.ex.held is None and self.cfg.get("direct_requests"):
            ks.append("foreign")
            ks.append("reset_messages")
        return ks

    def choose(self):
        ks = self.enabled_kinds()
        if not ks:
            return None
        w = self.cfg["weights"]
        ws = [w.get(k, 1.0) for k in ks]
        if sum(ws) <= 0:
            ws = [1.0] * len(ks)
        r = self.rng
        c = self.cfg
        k = r.choices(ks, ws)[0]
        bits = r.getrandbits(8)
        pend = int(r.random() < c["p_pend"])
        if k == "new":
            return [k, pend, "reject" if r.random() < c["p_new_reject"] else "ack", bits]
        if k in ("cancel", "replace"):
            if r.random() < c["p_hold"]:
                dec = "hold"
            elif r.random() < c["p_reject"]:
                dec = "reject"
            else:
                dec = "accept"
            if k == "cancel":
                return [k, pend, dec, bits]
            return [k, r.choice(PMODES), r.choice(QMODES), pend, dec, bits]
        if k == "resolve":
            return [k, "reject" if r.random() < c["p_reject"] else "accept", bits]
        if k == "fill":
            return [k, self.choose_fill(), bits]
        if k == "bust":
            return [k, r.choice(("H", "H", "G", "D")), r.randint(1, 8), bits]
        if k == "odd_reject":
            return [k, r.choice(("D", "D", "B", "7", "3"))]
        if k == "foreign":
            return [k, r.choice(("new", "trade"))]
        return [k, bits]

    def run(self, want_sample=False):
        try:
            if self.script is None:
                n = self.cfg["max_actions"]
                while len(self.executed) < n and self.violation is None:
                    act = self.choose()
                    if act is None:
                        break
                    if not self.apply(act):
                        raise RuntimeError(f"chooser picked an action that is not enabled: {act}")
            else:
                for act in self.script:
                    if self.violation is not None:
                        break
                    self.apply(act)
            if self.violation is None and self.ex.held is not None:
                self.apply(["resolve", self.cfg.get("settle_decision", "accept"), 0])
            self.stop_reason = "violation" if self.violation is not None else "quiescent"
        except HelperRefused:
            # the helper's own assertions put this argument combination outside its domain
            self.stop_reason = "helper-refused-arguments"
        return self.result(want_sample)


# ============================================================= RefExchange self-test
def _expect(rep, e150, e39, e11, e41, e14, e151, e38, e44, where):
    """None = the repo test does not pin this field (or pins another spelling)."""
    got = dict(e150=rep["exec_type"] if rep["t"] == "8" else "9", e39=rep["ord_status"], e11=rep["clord"],
               e41=rep["orig"])
    if rep["t"] == "8":
        got.update(e14=rep["cum"], e151=rep["leaves"], e38=rep["qty"], e44=rep["price"])
    want = dict(e150=e150, e39=e39, e11=e11, e41=e41, e14=e14, e151=e151, e38=e38, e44=e44)
    for k, w in want.items():
        if w is None:
            continue
        g = got.get(k)
        same = (float(g) == float(w)) if k in ("e14", "e151", "e38", "e44") else (g == w)
        assert same, f"selftest_matrices {where}: tag {k[1:]} model={g!r} repo-test={w!r} ({rep['label']})"


def selftest_matrices():
    """Replay the matrix scenarios of tests/test_protocol_order_single.py through
    RefExchange; the model's reports must carry the 150/39/11/41/14/151/38/44 the
    repo's tests feed to the order object.  Returns the list of scenarios covered.

    Ids as in the tests: the order is known as X='clordTest', the first request is
    Y='clordTest--1'.  Deviations (documented, field not compared):
      * Pending New: the tests leave CumQty/LeavesQty at the order's 0/0, the FIX
        matrix A.1.a (and the model) report LeavesQty = OrderQty.
      * fills while a request is pending: B.1.b feeds them under the *new* id, the
        B.1.c / C.* tests under the old one; the matrices (and the model) use the old.
      * C.1.b: the test reports the fill after Pending Replace with 39=Partially
        Filled, matrix and model with 39=Pending Replace.
      * C.3.a: the test omits the Pending Replace report that the matrix shows.
    """
    X, Y = "clordTest", "clordTest--1"
    covered = []

    def fresh(grid="bin", slz=False):
        ex = RefExchange(grid, slz)
        reps, _ = ex.on_new({"kind": "new", "11": X, "38": "10", "44": "200.0", "54": "1", "55": "US.F.TICKER"},
                            True, "ack")
        return ex, reps

    def head(reps, name):
        _expect(reps[0], "A", "A", X, None, 0, None, 10, 200, name + "#pending-new")
        _expect(reps[1], "0", "0", X, None, 0, 10, 10, 200, name + "#new")

    def cxl():
        return {"kind": "cancel", "11": Y, "41": X}

    def rep(price, qty):
        return {"kind": "replace", "11": Y, "41": X, "44": str(price), "38": str(qty)}

    # A.1.a filled order
    n = "A.1.a vanilla fill"
    ex, r = fresh()
    head(r, n)
    _expect(ex.fill(2)[0], "F", "1", X, None, 2, 8, 10, 200, n)
    _expect(ex.fill(1)[0], "F", "1", X, None, 3, 7, 10, 200, n)
    _expect(ex.fill(7)[0], "F", "2", X, None, 10, 0, 10, 200, n)
    assert ex.finished()
    covered.append(n)

    n = "A.1.a reject of a pending-new order"
    ex = RefExchange()
    r, _ = ex.on_new({"kind": "new", "11": X, "38": "10", "44": "200.0", "54": "1", "55": "T"}, True, "reject")
    _expect(r[0], "A", "A", X, None, 0, None, 10, 200, n)
    _expect(r[1], "8", "8", X, None, 0, 0, 10, 200, n)
    covered.append(n)

    n = "A.1.a reject after New"
    ex, r = fresh()
    head(r, n)
    _expect(ex.late_reject()[0], "8", "8", X, None, 0, 0, 10, 200, n)
    covered.append(n)

    n = "A.1.b suspended / resumed"
    ex, r = fresh(slz=True)
    head(r, n)
    _expect(ex.fill(2)[0], "F", "1", X, None, 2, 8, 10, 200, n)
    _expect(ex.suspend()[0], "9", "9", X, None, 2, 0, 10, 200, n)
    assert not ex.can("fill") and not ex.can("expire")
    _expect(ex.resume()[0], "0", "1", X, None, 2, 8, 10, 200, n)
    covered.append(n)

    n = "B.1.a cancel of a zero-filled order"
    ex, r = fresh()
    head(r, n)
    out, dec, _ = ex.on_request(cxl(), False, "accept")
    _expect(out[0], "4", "4", Y, None, 0, 0, 10, 200, n)
    assert out[0]["orig"] == X and ex.finished()
    covered.append(n)

    n = "B.1.a cancel rejected (back to New)"
    ex, r = fresh()
    out, dec, _ = ex.on_request(cxl(), False, "reject")
    _expect(out[0], "9", "0", Y, X, None, None, None, None, n)
    assert ex.live_id == X and ex.status() == "0"
    covered.append(n)

    n = "B.1.a cancel rejected after Pending Cancel"
    ex, r = fresh()
    out, dec, _ = ex.on_request(cxl(), True, "reject")
    _expect(out[0], "6", "6", Y, None, 0, 10, 10, 200, n)
    _expect(out[1], "9", "0", Y, X, None, None, None, None, n)
    covered.append(n)

    n = "B.1.b cancel of a part-filled order, executions while the cancel is active"
    ex, r = fresh()
    _expect(ex.fill(2)[0], "F", "1", X, None, 2, 8, 10, 200, n)
    _expect(ex.fill(3)[0], "F", "1", None, None, 5, 5, 10, 200, n)  # crosses the request on the wire
    out, dec, _ = ex.on_request(cxl(), True, "hold")
    _expect(out[0], "6", "6", Y, None, 5, 5, 10, 200, n)
    _expect(ex.fill(1)[0], "F", "6", None, None, 6, 4, 10, 200, n)
    out, dec = ex.resolve("accept")
    _expect(out[0], "4", "4", Y, None, 6, 0, 10, 200, n)
    covered.append(n)

    n = "B.1.c order fills before the cancel can be accepted"
    ex, r = fresh()
    ex.fill(2)
    _expect(ex.fill(3)[0], "F", "1", X, None, 5, 5, 10, 200, n)
    out, dec, _ = ex.on_request(cxl(), True, "hold")
    _expect(out[0], "6", "6", Y, X, 5, 5, 10, 200, n)
    _expect(ex.fill(5)[0], "F", "6", X, None, 10, 0, 10, 200, n)
    out, dec = ex.resolve("accept")  # too late: can only be rejected
    assert dec == "reject"
    _expect(out[0], "9", "2", Y, X, None, None, None, None, n)
    covered.append(n)

    n = "C.1.a replace of a zero-filled order, quantity increased"
    ex, r = fresh()
    out, dec, _ = ex.on_request(rep(300, 11), True, "accept")
    _expect(out[0], "E", "E", Y, None, 0, 10, 10, 200, n)
    _expect(out[1], "5", "0", Y, None, 0, 11, 11, 300, n)
    assert ex.live_id == Y
    covered.append(n)

    n = "C.1.a replace rejected (back to New)"
    ex, r = fresh()
    out, dec, _ = ex.on_request(rep(300, 11), False, "reject")
    _expect(out[0], "9", "0", Y, X, None, None, None, None, n)
    assert (ex.price, ex.qty, ex.live_id) == (200.0, 10.0, X)
    covered.append(n)

    n = "C.1.b part-filled, quantity increased, fractional execution while pending replace"
    ex, r = fresh(grid="dec")
    _expect(ex.fill(1)[0], "F", "1", X, None, 1, 9, 10, 200, n)
    out, dec, _ = ex.on_request(rep(300, 12), True, "hold")
    _expect(out[0], "E", "E", Y, None, 1, 9, 10, 200, n)
    _expect(ex.fill(0.1)[0], "F", None, X, None, 1.1, 8.9, 10, 200, n)
    out, dec = ex.resolve("accept")
    _expect(out[0], "5", "1", Y, X, 1.1, 10.9, 12, 300, n)
    _expect(ex.fill(10.9)[0], "F", "2", Y, None, 12, 0, 12, 300, n)
    covered.append(n)

    n = "C.1.c filled order, replace to increase quantity rejected"
    ex, r = fresh()
    _expect(ex.fill(10)[0], "F", "2", X, None, 10, 0, 10, 200, n)
    out, dec, _ = ex.on_request(rep(300, 12), False, "reject")
    _expect(out[0], "9", "2", Y, X, None, None, None, None, n)
    covered.append(n)

    n = "C.1.c filled order revived by the quantity increase"
    ex, r = fresh()
    _expect(ex.fill(10)[0], "F", "2", X, None, 10, 0, 10, 200, n)
    out, dec, _ = ex.on_request(rep(300, 12), True, "accept")
    _expect(out[0], "E", "E", Y, None, 10, 0, 10, 200, n)
    _expect(out[1], "5", "1", Y, X, 10, 2, 12, 300, n)
    _expect(ex.fill(2)[0], "F", "2", Y, None, 12, 0, 12, 300, n)
    covered.append(n)

    n = "C.2.a price-only replace rejected because the order filled"
    ex, r = fresh()
    _expect(ex.fill(10)[0], "F", "2", X, None, 10, 0, 10, 200, n)
    out, dec, _ = ex.on_request(rep(300, 10), False, "accept")
    assert dec == "reject"
    _expect(out[0], "9", "2", Y, X, None, None, None, None, n)
    covered.append(n)

    n = "C.3.a quantity reduced, still above CumQty"
    ex, r = fresh()
    _expect(ex.fill(2)[0], "F", "1", X, None, 2, 8, 10, 200, n)
    out, dec, _ = ex.on_request(rep(200.0, 9), True, "hold")  # Pending Replace: in the matrix, not in the test
    _expect(ex.fill(1)[0], "F", "E", X, None, 3, 7, 10, 200, n)
    out, dec = ex.resolve("accept")
    _expect(out[0], "5", "1", Y, X, 3, 6, 9, 200, n)
    covered.append(n)

    n = "C.3.b quantity reduced to exactly CumQty"
    ex, r = fresh()
    _expect(ex.fill(7)[0], "F", "1", X, None, 7, 3, 10, 200, n)
    out, dec, _ = ex.on_request(rep(200.0, 7), False, "accept")
    _expect(out[0], "5", "2", Y, X, 7, 0, 7, 200, n)
    assert ex.finished()
    covered.append(n)

    n = "C.3.c quantity reduced below CumQty (amended to CumQty)"
    ex, r = fresh()
    _expect(ex.fill(8)[0], "F", "1", X, None, 8, 2, 10, 200, n)
    out, dec, _ = ex.on_request(rep(200.0, 7), False, "accept")
    _expect(out[0], "5", "2", Y, X, 8, 0, 8, 200, n)
    assert ex.finished()
    covered.append(n)

    # and the rendered messages are accepted by the order object of the tree under test
    o = FIXNewOrderSingle(X, "US.F.TICKER", side=FOrdSide.BUY, price=200.0, qty=10)
    ex, r = fresh()
    for s in r + ex.fill(2):
        o.process_execution_report(render_report(s))
    assert (str(o.status), o.cum_qty, o.leaves_qty) == ("1", 2.0, 8.0)
    return covered


# ------------------------------------------------------------------- pretty printing
def show(machine, n=60):
    for who, what, text in machine.log[:n]:
        print(f"    {who:18s} {what:16s} {text}")
