"""Two real endpoints (AsyncFIXClient <-> AsyncFIXDummyServer) over SimNet.

Family used by C07 (delivery across connection loss), and as a traffic source
for C02 (wire well-formedness) and C14 probes.
"""
import random

from asyncfix import FTag
from asyncfix.connection import ConnectionState
from asyncfix.journaler import Journaler
from asyncfix.message import MessageDirection

from .. import refframer
from ..apps import SimClient, SimServer, app_message, body_fingerprint, make_endpoint
from ..core import FAULT, Sim, Violation

ACTIVE = ConnectionState.ACTIVE


class TapJournaler(Journaler):
    """Public-API tap: remembers the live FIXSession object handed to the
    connection by create_or_load(), so oracles can read the live counters."""

    def __init__(self, filename=None):
        super().__init__(filename)
        self.live = None

    def create_or_load(self, target_comp_id, sender_comp_id):
        s = super().create_or_load(target_comp_id, sender_comp_id)
        if self.live is None:
            self.live = s
        return s

    def stored(self):
        """Counters as a fresh load would see them (does not touch `live`)."""
        s = Journaler.create_or_load(self, self.live.target_comp_id, self.live.sender_comp_id)
        return s.next_num_in, s.next_num_out

HOST, PORT = "sim.host", 9000
BREAK_KINDS = ["eof", "reset", "pipe", "timeout"]


def make_config(seed, tier="quick", variant=None):
    """Swarm configuration drawn from the run seed."""
    r = random.Random(seed ^ 0x5EED07)
    hb = r.choice([1, 2, 2, 3, 3, 5, 5, 10, 30])
    thorough = tier == "thorough"
    n_sends = r.randint(0, 12 if not thorough else 20)
    max_breaks = r.choice([0, 1, 1, 2, 2, 3, 4]) if not thorough else r.choice([0, 1, 2, 3, 4, 6, 10])
    kinds = r.sample(BREAK_KINDS, r.randint(1, len(BREAK_KINDS)))
    if r.random() < 0.5 and "timeout" in kinds:
        kinds.remove("timeout")
    if not kinds:
        kinds = ["eof"]
    cfg = dict(
        seed=seed,
        hb=hb,
        n_sends_a=n_sends,
        n_sends_b=r.randint(0, 12 if not thorough else 20),
        max_breaks=max_breaks,
        break_kinds=kinds,
        half_open=thorough and r.random() < 0.2,
        p_pause=r.choice([0.0, 0.0, 0.1, 0.3, 0.6]),
        p_hook=r.choice([0.0, 0.0, 0.1, 0.3]),
        p_refuse=r.choice([0.0, 0.0, 0.2]),
        p_delay=r.choice([0.0, 0.05, 0.05, 0.3]),
        chunk_law="whole",
        payload_law=r.choice(["small", "small", "medium", "big"]),
        charset="ascii",
        max_actions=r.choice([20, 40, 60]) if not thorough else r.choice([60, 150, 400]),
        p_act=r.choice([0.3, 0.5, 0.8]),
        p_more=r.choice([0.1, 0.3, 0.5]),
        w_send=r.choice([1.0, 3.0]),
        w_break=r.choice([0.3, 1.0, 2.0]),
        start_offset=round(r.random(), 3),
        file_journal=False,
    )
    # buggify: a transport close that takes a while (wait_closed() completes late)
    # non-ASCII values (separate stream): a retransmission has to deliver the same bytes
    cfg["charset"] = random.Random(seed ^ 0xC07C5).choice(["ascii", "ascii", "ascii", "latin1", "bmp", "astral", "nfd"])
    cfg["p_hook_raise"] = random.Random(seed ^ 0xC07E7).choice([0.0, 0.0, 0.0, 0.1, 0.3])  # on_message() raising
    cfg["p_slow_close"] = r.choice([0.0, 0.0, 0.0, 0.5])
    cfg["slow_close_s"] = r.choice([0.3, 1.3, 2.6])
    cfg["settle_s"] = 6.5 * hb + 8.0
    cfg["settle_extra_s"] = 2.0 * hb + 2.0
    cfg["max_boundaries"] = 6000 if not thorough else 20000
    cfg["max_handles"] = 300_000
    if variant:
        cfg.update(variant)
    return cfg


class PairSim(Sim):
    family = "pair"

    # ------------------------------------------------------------------ setup
    def make_journal(self, name):
        return TapJournaler()

    def setup(self):
        cfg = self.cfg
        self.breaks_done = 0
        self.journals = {"A": self.make_journal("A"), "B": self.make_journal("B")}
        self.net.register(HOST, PORT, "B", "A")
        self.eps = {}
        cli, srv = cfg.get("comp_ids", ("CLI", "SRV"))  # C02 also draws CompIDs outside ASCII (wire.make_config)
        self.eps["B"] = make_endpoint(
            self, SimServer, "B", srv, cli, self.journals["B"], HOST, PORT, cfg["hb"]
        )
        self.eps["A"] = make_endpoint(
            self, SimClient, "A", cli, srv, self.journals["A"], HOST, PORT, cfg["hb"]
        )
        self.sends = {"A": [], "B": []}  # per side: dict(k, mid, status, fp, ev_start, ev_end)
        self.inprogress = 0
        self.resend_serving = {"A": False, "B": False}
        self.break_ctx = []
        self.dirty_epochs = set()
        self.spawn(self._start_server(), "B-connect")
        self.loop.call_later(cfg["start_offset"], self._start_client)

    async def _start_server(self):
        try:
            await self.eps["B"].connect()
        except Exception as e:  # pragma: no cover
            self.rec("server_connect_error", type(e).__name__)

    def _start_client(self):
        self.spawn(self._client_connect(), "A-connect")

    async def _client_connect(self):
        try:
            await self.eps["A"].connect()
        except Exception as e:
            self.rec("client_connect_error", type(e).__name__, str(e)[:80])

    # --------------------------------------------------------------- actions
    def n_sends(self, side):
        return self.cfg["n_sends_a" if side == "A" else "n_sends_b"]

    def enabled_actions(self):
        out = self.net_enabled()
        cfg = self.cfg
        for side in ("A", "B"):
            if len(self.sends[side]) < self.n_sends(side):
                st = self.eps[side].connection_state
                w = cfg["w_send"] if st >= ConnectionState.ACTIVE or st in (
                    ConnectionState.RESENDREQ_AWAITING,
                    ConnectionState.RESENDREQ_HANDLING,
                    ConnectionState.RECV_SEQNUM_TOO_HIGH,
                ) else 0.05
                out.append((("send", side), w))
        if self.breaks_done < cfg["max_breaks"]:
            for conn in self.net.conns:
                if self.breakable(conn):
                    busy = conn.inflight[0] + conn.inflight[1] > 0 or any(
                        self.eps[s].connection_state
                        in (ConnectionState.RESENDREQ_AWAITING, ConnectionState.RESENDREQ_HANDLING)
                        for s in ("A", "B")
                    )
                    paused = any(t is not None and t.paused for t in conn.tr) or bool(
                        self.pending_hooks
                    )
                    w = cfg["w_break"] * (3.0 if busy else 0.3) * (3.0 if paused else 1.0)
                    out.append((("break", conn.cid), w))
        return out

    def concretize(self, proto):
        if proto[0] == "send":
            side = proto[1]
            return ["send", side, len(self.sends[side])]
        if proto[0] == "break":
            r = self.rng
            kinds = self.cfg["break_kinds"]
            k0, k1 = r.choice(kinds), r.choice(kinds)
            if self.cfg["half_open"] and r.random() < 0.3:
                if r.random() < 0.5:
                    k0 = "silent"
                else:
                    k1 = "silent"
            return ["break", proto[1], k0, k1, r.randint(0, 1)]
        return super().concretize(proto)

    def can_fire_family(self, a):
        if a[0] == "send":
            return len(self.sends[a[1]]) < self.n_sends(a[1])
        return False

    def can_fire(self, a):
        if a[0] == "break" and self.breaks_done >= self.cfg["max_breaks"]:
            return False
        return super().can_fire(a)

    def fire_family(self, a):
        if a[0] == "send":
            side = a[1]
            k = len(self.sends[side])
            msg = app_message(self.cfg["seed"], side, k, self.cfg["payload_law"], self.cfg["charset"])
            ent = dict(k=k, mid=f"{side}-{k}", status="pending", fp=body_fingerprint(msg, "sent"))
            # a value with a lone surrogate has no byte representation: such a message can only be refused
            ent["unrepresentable"] = any(0xD800 <= ord(c) <= 0xDFFF for t in msg.tags for c in str(msg.tags[t]))
            ent["ev_start"] = self.rec("send_call", side, k)
            self.sends[side].append(ent)
            self.inprogress += 1
            self.spawn(self._do_send(side, ent, msg), f"send-{side}-{k}")
        else:
            super().fire_family(a)

    async def _do_send(self, side, ent, msg):
        ep = self.eps[side]
        try:
            await ep.send_msg(msg)
        except BaseException as e:
            ent["status"] = "raised"
            ent["exc"] = type(e).__name__
            ent["ev_end"] = self.rec("send_raised", side, ent["k"], type(e).__name__)
            self.inprogress -= 1
            if not isinstance(e, Exception):
                raise
            return
        ent["status"] = "accepted"
        ent["ev_end"] = self.rec("send_ok", side, ent["k"])
        self.inprogress -= 1

    def on_break(self, conn, lost):
        self.breaks_done += 1
        ctx = dict(
            n=self.breaks_done,
            lost=lost,
            states=(int(self.eps["A"].connection_state), int(self.eps["B"].connection_state)),
            paused=any(t is not None and t.paused for t in conn.tr),
            hooks=len(self.pending_hooks),
        )
        self.break_ctx.append(ctx)
        if ctx["paused"] or ctx["hooks"]:
            self.probe("break_while_a_task_is_parked")
        if any(
            s in (int(ConnectionState.RESENDREQ_HANDLING), int(ConnectionState.RESENDREQ_AWAITING))
            for s in ctx["states"]
        ):
            self.probe("break_during_resend_recovery")
        if self.breaks_done >= 2:
            self.probe("second_or_later_break")

    def fault_phase_over(self):
        if super().fault_phase_over():
            return True
        # workload exhausted and nothing left that could be disturbed
        if (
            len(self.sends["A"]) >= self.n_sends("A")
            and len(self.sends["B"]) >= self.n_sends("B")
            and not self.inprogress
            and (self.breaks_done >= self.cfg["max_breaks"] or self.n_boundaries > 300)
            and not any(c.q[0] or c.q[1] for c in self.net.conns if not c.broken)
        ):
            return True
        return False

    def ep_event(self, ep, kind, *args):
        if kind == "state":
            st = args[0]
            if st == ConnectionState.RESENDREQ_HANDLING:
                self.probe("resend_request_served")
            elif st == ConnectionState.RESENDREQ_AWAITING:
                self.probe("resend_request_sent")
            if st in (ConnectionState.RESENDREQ_HANDLING, ConnectionState.RESENDREQ_AWAITING,
                      ConnectionState.RECV_SEQNUM_TOO_HIGH) and self.net.conns:
                self.dirty_epochs.add(self.net.conns[-1].cid)
        elif kind == "on_disconnect":
            pass

    # --------------------------------------------------------------- observe
    def abstract_state(self):
        a, b = self.eps["A"], self.eps["B"]
        sa, sb = self.journals["A"].live, self.journals["B"].live

        def clip(x, lo=-3, hi=3):
            return max(lo, min(hi, x))

        conn = self.net.conns[-1] if self.net.conns else None
        return (
            int(a.connection_state),
            int(b.connection_state),
            bool(conn and conn.alive()),
            clip(sa.next_num_out - sb.next_num_in),
            clip(sb.next_num_out - sa.next_num_in),
            clip(len(conn.q[0]), 0, 3) if conn else 0,
            clip(len(conn.q[1]), 0, 3) if conn else 0,
            bool(conn and (conn.tr[0] and conn.tr[0].paused)),
            bool(conn and (conn.tr[1] and conn.tr[1].paused)),
            clip(len(self.pending_hooks), 0, 2),
        )

    def counters(self, side):
        s = self.journals[side].live
        return s.next_num_in, s.next_num_out

    def converged(self):
        a, b = self.eps["A"], self.eps["B"]
        if a.connection_state != ACTIVE or b.connection_state != ACTIVE:
            return False
        if self.inprogress or self.pending_hooks:
            return False
        for conn in self.net.conns:
            if not conn.broken and (conn.q[0] or conn.q[1]):
                return False
        ain, aout = self.counters("A")
        bin_, bout = self.counters("B")
        return ain == bout and bin_ == aout

    def boundary_check(self):
        """Quiescent instant on a live connection: the Logon exchange has completed (both ACTIVE),
        nothing is in flight, no task is runnable or parked in a send or a hook -- the counters
        must agree now, not only at the end of the run (TCP loses nothing on a live connection)."""
        if not self.net.conns or self.loop._ready or self.pending_hooks or self.inprogress:
            return
        conn = self.net.conns[-1]
        if conn.broken or conn.partitioned or conn.q[0] or conn.q[1] or conn.closed[0] or conn.closed[1]:
            return
        if conn.tr[0] is None or conn.tr[1] is None or conn.tr[0].paused or conn.tr[1].paused:
            return
        a, b = self.eps["A"], self.eps["B"]
        if a.connection_state != ACTIVE or b.connection_state != ACTIVE:
            return
        if conn.tr[0]._lost_called or conn.tr[1]._lost_called:
            return
        ain, aout = self.counters("A")
        bin_, bout = self.counters("B")
        if conn.cid in self.dirty_epochs:
            # a resend recovery ran on this connection: a new message written in the middle of a
            # replay is dropped by the awaiting side and re-requested on the next inbound frame
            # (heartbeat at the latest) -- that is judged by the bounded-liveness clause at the end
            if ain != bout or bin_ != aout:
                self.probe("counters_disagree_at_rest_after_resend_recovery")
            return
        self.stat("quiescent_instants_checked")
        if ain != bout or bin_ != aout:
            raise Violation(
                "counters",
                f"C07/counters-disagree-at-rest-on-clean-connection/{self.mechanism()}",
                f"both ACTIVE on a live connection with nothing in flight at t=+{self.loop.time() - 1_700_000_000.0:.2f}s: "
                f"A(in={ain},out={aout}) B(in={bin_},out={bout})",
            )

    # ----------------------------------------------------------------- judge
    def mechanism(self):
        """Discriminators naming the circumstances of the run's faults."""
        parked = any(c["paused"] or c["hooks"] for c in self.break_ctx)
        rec = any(
            s in (int(ConnectionState.RESENDREQ_HANDLING), int(ConnectionState.RESENDREQ_AWAITING))
            for c in self.break_ctx
            for s in c["states"]
        )
        return (
            f"breaks={min(self.breaks_done, 3)}{'+' if self.breaks_done > 3 else ''}"
            f"/parked={'Y' if parked else 'N'}/inrecovery={'Y' if rec else 'N'}"
        )

    def judge(self):
        self.judge_c07()

    def delivery_clauses(self, prop="C07"):
        """Delivery oracle shared by C07 / C09. Returns list of (clause, detail)."""
        problems = []
        for src, dst in (("A", "B"), ("B", "A")):
            sends = self.sends[src]
            order = {e["mid"]: i for i, e in enumerate(sends)}
            fps = {e["mid"]: e["fp"] for e in sends}
            got = [mid for (_, mid, _) in self.eps[dst].delivered]
            seen = set()
            last = -1
            for (_, mid, msg) in self.eps[dst].delivered:
                if mid not in order:
                    problems.append(("unknown-message", f"{dst} received {mid!r} never sent by {src}"))
                    continue
                if mid in seen:
                    problems.append(("duplicate", f"{dst} received {mid} twice"))
                    continue
                seen.add(mid)
                if order[mid] < last:
                    problems.append(("reorder", f"{dst} received {mid} after a later message"))
                last = max(last, order[mid])
                if body_fingerprint(msg, "recv") != fps[mid]:
                    problems.append(("content", f"{dst} received {mid} with different content"))
            for e in sends:
                if e["status"] == "accepted" and e["mid"] not in seen:
                    problems.append(("lost", f"{src}'s accepted message {e['mid']} never reached {dst}"))
        return problems

    def judge_c07(self):
        if self.stop_reason in ("handle-budget", "deadlock", "boundary-budget"):
            # the run did not finish inside its deterministic caps: a livelock of a
            # library task shows up here
            if self.probes.get("reader_spins_on_stored_error"):
                raise Violation(
                    "not-recovered",
                    "C07/not-recovered/reader-task-spins",
                    "reader task spins on a stored transport error and never recovers",
                )
        problems = self.delivery_clauses()
        a, b = self.eps["A"], self.eps["B"]
        mech = self.mechanism()
        if not problems:
            # Neither application ever logs out here and both ends run the library: a Logout on the wire means one
            # end found the other's numbering / identity wrong and tore a recovered session down again - the state
            # "Logon completed, quiescent" was then not "both ACTIVE" (the harness reconnects, so the end state
            # alone would not show it).  0 occurrences in 58 000 runs of the unchanged tree.
            for lab in ("A", "B"):
                for (ev, cid, d, fr, dropped) in self.frames_written(lab):
                    if d.get("35") == "5":
                        why = "".join(c for c in str(d.get("58", "")) if not c.isdigit()).strip()[:40].replace(" ", "-")
                        raise Violation(
                            "session-torn-down",
                            f"C07/session-torn-down-by-logout/{why or 'no-text'}",
                            f"{lab} sent Logout 34={d.get('34')} text={d.get('58')!r} on connection {cid} although both "
                            "ends are library endpoints and only the connection was ever broken",
                        )
        if self.probes.get("reader_spins_on_stored_error"):
            raise Violation(
                "not-recovered",
                "C07/not-recovered/reader-task-spins",
                "reader task spun on a non-ConnectionError transport error (no yield); "
                f"states A={a.connection_state.name} B={b.connection_state.name}",
            )
        if problems:
            clause, detail = problems[0]
            raise Violation(clause, f"C07/{clause}/{mech}", detail + f" [{len(problems)} problem(s)]")
        if a.connection_state != ACTIVE or b.connection_state != ACTIVE:
            raise Violation(
                "not-recovered",
                f"C07/not-recovered/A={a.connection_state.name}/B={b.connection_state.name}",
                f"{self.loop.time() - self.t_fault_end:.1f}s after the last fault: "
                f"A={a.connection_state.name} B={b.connection_state.name} (hb={self.cfg['hb']})",
            )
        ain, aout = self.counters("A")
        bin_, bout = self.counters("B")
        if ain != bout or bin_ != aout:
            raise Violation(
                "counters",
                f"C07/counters-disagree/{mech}",
                f"A(in={ain},out={aout}) B(in={bin_},out={bout})",
            )
        if self.stop_reason != "settled":
            raise Violation(
                "not-recovered",
                f"C07/not-quiescent/{self.stop_reason}",
                f"run ended by {self.stop_reason} without reaching quiescence",
            )

    def sample(self):
        return dict(
            config={k: self.cfg[k] for k in ("hb", "n_sends_a", "n_sends_b", "max_breaks", "break_kinds", "p_pause", "p_hook")},
            actions=self.out_actions[:40],
            sends={s: [(e["mid"], e["status"]) for e in self.sends[s]] for s in "AB"},
            delivered={s: [m for (_, m, _) in self.eps[s].delivered] for s in "AB"},
            final_states=[self.eps[s].connection_state.name for s in "AB"],
        )
