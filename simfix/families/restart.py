"""C09 family: restarting an endpoint is transparent to the session.

C07's pair with file-backed journals (real SQLite files on tmpfs, reached
through the statement/commit proxy of the journal family).  One endpoint per run
is the *victim*:

* graceful restarts are chooser actions at quiescent points (optionally after a
  Logout through the public disconnect()): tasks cancelled, journal closed
  normally, a new Journaler + connection object on the same file;
* kills are placed systematically: the seam crossings of the victim (every
  journal statement / commit boundary, every transport write before and after,
  every instant it is parked in drain) are numbered in a kill-free run of the
  history, and the history is re-run once per crossing with an abrupt process
  death there -- the journal file image of that instant is all that survives.
"""
import os
import random
import shutil

import asyncfix.journaler
from asyncfix.connection import ConnectionState
from asyncfix.message import MessageDirection

from .. import refframer
from ..apps import SimClient, SimServer, body_fingerprint, make_endpoint
from ..core import FAULT, HarnessError, Violation
from . import journal as jfam
from . import pair
from .pair import ACTIVE, HOST, PORT, TapJournaler

SKIP_CMP = {"8", "9", "10", "52", "122", "43"}


class _Closed:
    """Stands in for cursor / connection of a Journaler that was closed explicitly (its __del__ closes again)."""

    def close(self):
        pass


def close_journal(j):
    try:
        j.cursor.close()
        j.conn.close()
    except Exception:
        pass
    j.cursor = _Closed()
    j.conn = _Closed()


class Killed(BaseException):
    """Raised out of a seam inside the victim: the process is dead from here on."""


def make_config(seed, tier="quick"):
    cfg = pair.make_config(seed, tier)
    r = random.Random(seed ^ 0xC09)
    thorough = tier == "thorough"
    cfg.update(
        victim=r.choice(["A", "B"]),
        max_restarts=r.choice([0, 1, 1, 2]),
        w_restart=r.choice([0.5, 2.0]),
        n_sends_a=r.randint(0, 8 if not thorough else 14),
        n_sends_b=r.randint(0, 8 if not thorough else 14),
        max_breaks=r.choice([0, 0, 1, 2]),
        half_open=False,
        kill_at=None,  # (crossing number) set by the check for the systematic re-runs
        kill_peer_sees=r.choice(["eof", "reset"]),
        respawn_delay=r.choice([0.3, 1.7, 4.0]),
        payload_law=r.choice(["small", "small", "medium"]),
        crash_cap=40 if not thorough else 120,
        file_journal=True,
    )
    # swarm profile "overlap" (1 run in 4): parked application hooks, slow transport closes and connection breaks
    # together, so that one task's disconnect() overlaps another task's suspended message processing
    r2 = random.Random(seed ^ 0xC09A)
    if r2.random() < 0.25:
        cfg.update(
            p_hook=r2.choice([0.3, 0.6]),
            p_slow_close=r2.choice([0.5, 0.9]),
            slow_close_s=r2.choice([0.3, 1.3, 2.6]),
            max_breaks=r2.choice([2, 3]),
            w_break=1.0,
            n_sends_a=max(cfg["n_sends_a"], 5),
            n_sends_b=max(cfg["n_sends_b"], 5),
            profile="overlap",
            p_hook_stall=r2.choice([0.0, 0.2]),
            hook_stall_s=r2.choice([1.5, 4.0]) * cfg["hb"],
        )
    cfg["settle_s"] = 8.0 * cfg["hb"] + 14.0
    return cfg


class PathShim:
    """sqlite3 stand-in for asyncfix.journaler: proxies connections, routes boundaries by file path."""

    IntegrityError = jfam.REAL_SQLITE3.IntegrityError

    def __init__(self, sim):
        self.sim = sim
        self.opened = 0
        self.closed = 0

    def connect(self, path, *a, **kw):
        self.opened += 1
        key = os.path.basename(str(path))
        sim = self.sim

        def cb(kind, key=key):
            sim.on_journal_boundary(key, kind)

        return jfam.ConnProxy(jfam.REAL_SQLITE3.connect(path, *a, **kw), cb, self)

    def __getattr__(self, name):
        return getattr(jfam.REAL_SQLITE3, name)


class RestartSim(pair.PairSim):
    family = "restart"

    # ---------------------------------------------------------------- setup
    def setup(self):
        self.run_dir = jfam.make_run_dir()
        self.gen = {"A": 0, "B": 0}
        self.dead = set()  # (label, gen) of killed incarnations
        self.keys = {}  # db file basename -> (label, gen)
        self.n_cross = 0
        self.cross_log = []
        self.kill_done = False
        self.kill_ctx = None
        self.restarts = 0
        self.restart_busy = False
        self.delivered_old = {"A": [], "B": []}
        self.killed_last_delivery = {"A": None, "B": None}
        self.clean_since = None  # evno of the last clean graceful restart (for the no-ResendRequest clause)
        self.qchecks = 0
        self.ichecks = 0
        self.idle_seen = None
        self.send_tasks = {"A": [], "B": []}
        self.conn_tasks = {"A": [], "B": []}
        self.old_journals = []
        self._saved_sqlite = asyncfix.journaler.sqlite3
        asyncfix.journaler.sqlite3 = PathShim(self)
        self.constructing = True  # opening a journal / building objects is C08's ground, not a kill point here
        super().setup()
        self.constructing = False
        self.conn_tasks["B"].extend(t for t in self.tasks if t.get_name() == "B-connect")

    def teardown(self):
        try:
            super().teardown()
        finally:
            asyncfix.journaler.sqlite3 = self._saved_sqlite
            for j in list(getattr(self, "journals", {}).values()):
                close_journal(j)
            for j in self.old_journals:
                close_journal(j)
            self.journals = {}
            import gc

            gc.collect()
            shutil.rmtree(self.run_dir, ignore_errors=True)

    def db_path(self, label):
        return os.path.join(self.run_dir, f"{label}-{self.gen[label]}.db")

    def make_journal(self, name):
        path = self.db_path(name)
        self.keys[os.path.basename(path)] = (name, self.gen[name])
        return TapJournaler(path)

    def _start_client(self):
        self.conn_tasks["A"].append(self.spawn(self._client_connect(), "A-connect"))

    # ------------------------------------------------------------- crossings
    def is_victim_now(self, label, gen):
        return label == self.cfg["victim"] and gen == self.gen[label] and (label, gen) not in self.dead

    def crossing(self, label, gen, kind):
        """One numbered seam crossing of the victim's current incarnation."""
        if self.phase != FAULT or self.constructing:
            return
        if not self.is_victim_now(label, gen) or self.kill_done:
            return
        self.n_cross += 1
        if self.cfg["kill_at"] is None:
            if len(self.cross_log) < 400:
                self.cross_log.append(kind)
            return
        if self.n_cross == self.cfg["kill_at"]:
            self.kill(label, kind)

    def on_journal_boundary(self, key, kind):
        lg = self.keys.get(key)
        if lg is None:
            return
        if lg in self.dead:
            raise Killed(f"journal of dead incarnation {lg} used")
        self.crossing(lg[0], lg[1], "journal:" + kind)

    def on_write(self, tr, data, dropped):
        lab = tr.label
        if lab in self.gen and not hasattr(tr, "gen"):
            tr.gen = self.gen[lab]
        g = getattr(tr, "gen", None)
        if lab in self.gen and g is not None and (lab, g) in self.dead:
            self.stat("post_mortem_writes")
            return
        super().on_write(tr, data, dropped)
        if lab in self.gen and g is not None and not dropped:
            self.crossing(lab, g, "transport:before-write")

    def after_write(self, tr):
        lab = tr.label
        g = getattr(tr, "gen", None)
        if lab in self.gen and g is not None and (lab, g) not in self.dead:
            self.crossing(lab, g, "transport:after-write")

    def tag_transports(self):
        """Transports carry the generation of the endpoint incarnation that owns them."""
        for conn in self.net.conns:
            for tr in conn.tr:
                if tr is not None and tr.label in self.gen and not hasattr(tr, "gen"):
                    tr.gen = self.gen[tr.label]

    def on_boundary(self):
        self.tag_transports()
        if self.phase == FAULT and not self.kill_done:
            v = self.cfg["victim"]
            for conn in self.net.conns:
                for tr in conn.tr:
                    if tr is not None and tr.label == v and tr.paused and getattr(tr, "gen", None) == self.gen[v] \
                            and not getattr(tr, "_drain_crossed", False):
                        tr._drain_crossed = True
                        try:
                            self.crossing(v, self.gen[v], "transport:parked-in-drain")
                        except Killed:
                            pass  # raised outside the victim's own stack: nothing to unwind
        super().on_boundary()

    # ------------------------------------------------------------------ kill
    def kill(self, label, kind):
        gen = self.gen[label]
        self.kill_done = True
        self.rec("kill", label, gen, kind)
        self.fault("kill")
        self.fault("kill_at_" + kind.replace(":", "_"))
        j = self.journals[label]
        path = self.db_path(label)
        image = jfam.read_image(path, None)
        self.dead.add((label, gen))
        old = self.eps[label]
        self.delivered_old[label].extend(old.delivered)
        self.killed_last_delivery[label] = old.delivered[-1][1] if old.delivered else None
        # the network: what the victim already wrote is still delivered, then the peer sees EOF / reset;
        # what was in flight towards the victim is lost
        for conn in self.net.conns:
            for side, tr in enumerate(conn.tr):
                if tr is not None and tr.label == label and getattr(tr, "gen", gen) == gen and not tr._lost_called:
                    tr.dead = True
                    tr._closing = True
                    tr._lost_called = True
                    tr.paused = False
                    conn.closed[side] = True
                    lost = conn.inflight[1 - side]
                    conn.q[1 - side].clear()
                    conn.inflight[1 - side] = 0
                    if lost:
                        self.fault("kill_with_bytes_in_flight_to_victim")
                    if self.cfg["kill_peer_sees"] == "reset":
                        # the peer learns through a later 'notify' action (its transport may not even be
                        # accepted yet); settle delivers it at the latest
                        conn.q[side].clear()
                        conn.inflight[side] = 0
                        conn.broken = True
                        conn.notify_pending[1 - side] = "reset"
        if label == "B":
            srv = self.net.listeners.get((HOST, PORT))
            if srv is not None:
                srv.close()
        self.old_journals.append(j)
        self.kill_ctx = dict(label=label, gen=gen, kind=kind, image=image)
        self.loop.call_soon(self._reap, label, gen, old)
        self.loop.call_later(self.cfg["respawn_delay"], self.respawn, label, image, "kill")
        raise Killed(f"{label} killed at {kind}")

    def _tasks_of(self, old):
        out = []
        for name, t in self.all_tasks:
            if t.done():
                continue
            coro = t.get_coro()
            fr = getattr(coro, "cr_frame", None)
            if fr is not None and fr.f_locals.get("self") is old:
                out.append(t)
        return out

    def _reap(self, label, gen, old):
        for t in self._tasks_of(old) + self.send_tasks[label] + self.conn_tasks[label]:
            if not t.done():
                t.cancel()
        self.send_tasks[label] = []
        self.conn_tasks[label] = []

    def respawn(self, label, image, how):
        if self.phase == "done":
            return
        self.gen[label] += 1
        path = self.db_path(label)
        jfam.write_image(path, image)
        self.spawn_incarnation(label, how)

    def spawn_incarnation(self, label, how):
        cfg = self.cfg
        self.constructing = True
        try:
            j = self.make_journal(label)
            self.journals[label] = j
            if label == "A":
                ep = make_endpoint(self, SimClient, "A", "CLI", "SRV", j, HOST, PORT, cfg["hb"])
            else:
                ep = make_endpoint(self, SimServer, "B", "SRV", "CLI", j, HOST, PORT, cfg["hb"])
        finally:
            self.constructing = False
        self.eps[label] = ep
        self.rec("respawn", label, self.gen[label], how, j.live.next_num_in, j.live.next_num_out)
        self.probe("incarnations_started")
        if label == "A":
            self.conn_tasks["A"].append(self.spawn(self._client_connect(), f"A-connect-{self.gen[label]}"))
        else:
            self.conn_tasks["B"].append(self.spawn(self._start_server(), f"B-connect-{self.gen[label]}"))
        return ep

    def setup_server_task(self):
        pass

    # --------------------------------------------------------------- actions
    def quiescent_pair(self):
        if self.loop._ready or self.pending_hooks or self.inprogress or self.restart_busy:
            return False
        if not self.net.conns:
            return False
        conn = self.net.conns[-1]
        if conn.broken or conn.q[0] or conn.q[1] or conn.closed[0] or conn.closed[1]:
            return False
        if conn.tr[0] is None or conn.tr[1] is None or conn.tr[0].paused or conn.tr[1].paused:
            return False
        a, b = self.eps["A"], self.eps["B"]
        return a.connection_state == ACTIVE and b.connection_state == ACTIVE

    def enabled_actions(self):
        if self.restart_busy:
            return self.net_enabled()
        out = [(a, w) for (a, w) in super().enabled_actions()
               if not (a[0] == "send" and (a[1], self.gen[a[1]]) in self.dead)]
        cfg = self.cfg
        if self.restarts < cfg["max_restarts"] and self.quiescent_pair():
            out.append((("restart", cfg["victim"]), cfg["w_restart"]))
        return out

    def concretize(self, proto):
        if proto[0] == "restart":
            return ["restart", proto[1], int(self.rng.random() < 0.5)]
        return super().concretize(proto)

    def can_fire_family(self, a):
        if a[0] == "restart":
            return self.restarts < self.cfg["max_restarts"] and self.quiescent_pair() and (a[1], self.gen[a[1]]) not in self.dead
        if a[0] == "send" and (self.restart_busy or (a[1], self.gen[a[1]]) in self.dead):
            return False
        return super().can_fire_family(a)

    def fire_family(self, a):
        if a[0] == "restart":
            self.restarts += 1
            self.restart_busy = True
            self.fault("graceful_restart")
            self.fault("graceful_restart_with_logout" if a[2] else "graceful_restart_without_logout")
            self.spawn(self._graceful(a[1], bool(a[2])), f"restart-{a[1]}-{self.restarts}")
            return
        if a[0] == "send":
            n = len(self.tasks)
            super().fire_family(a)
            self.send_tasks[a[1]].extend(self.tasks[n:])
            return
        super().fire_family(a)

    async def _graceful(self, label, with_logout):
        import asyncio

        try:
            old = self.eps[label]
            j = self.journals[label]
            ain, aout = self.counters("A")
            bin_, bout = self.counters("B")
            agreed = ain == bout and bin_ == aout
            live = (j.live.next_num_in, j.live.next_num_out)
            ev_begin = self.rec("graceful_begin", label, int(with_logout), live)
            gen0 = self.gen[label]
            if with_logout:
                await old.disconnect(ConnectionState.DISCONNECTED_WCONN_TODAY, logout_message="")
                await asyncio.sleep(0.05)
                if (label, gen0) in self.dead:
                    # the process was killed while it was shutting down (an application hook was parked, the
                    # listener still open): this restart is the kill's, its respawn is already scheduled
                    self.probe("kill_during_graceful_shutdown")
                    return
                live = (j.live.next_num_in, j.live.next_num_out)
            # stop the old incarnation
            gen = self.gen[label]
            self.dead.add((label, gen))
            self.delivered_old[label].extend(old.delivered)
            for conn in self.net.conns:
                for side, tr in enumerate(conn.tr):
                    if tr is not None and tr.label == label and getattr(tr, "gen", gen) == gen and not tr._lost_called:
                        tr.dead = True
                        tr._closing = True
                        tr._lost_called = True
                        conn.closed[side] = True
            if label == "B":
                srv = self.net.listeners.get((HOST, PORT))
                if srv is not None:
                    srv.close()
            me = asyncio.current_task()
            for t in self._tasks_of(old) + self.conn_tasks[label]:
                if t is not me and not t.done():
                    t.cancel()
            self.conn_tasks[label] = []
            await asyncio.sleep(0)
            # normal close of the journal, then a new incarnation on the same file
            close_journal(j)
            image = jfam.read_image(self.db_path(label), None)
            self.gen[label] += 1
            jfam.write_image(self.db_path(label), image)
            new = self.spawn_incarnation(label, "graceful")
            nj = self.journals[label]
            got = (nj.live.next_num_in, nj.live.next_num_out)
            if got != live and self.violation is None:
                which = "in" if got[0] != live[0] else "out"
                self.violation = Violation(
                    "restored-counters", f"C09/restored-counters-differ/graceful/logout={'Y' if with_logout else 'N'}/{which}",
                    f"graceful restart of {label}: old object held (next_in, next_out)={live}, the new object loaded {got}")
                self._stop("violation")
                return
            old_cid = self.net.conns[-1].cid if self.net.conns else -1
            if agreed:
                self.clean_since = (ev_begin, "Y" if with_logout else "N", old_cid)
            self.probe("graceful_restart_done")
        except Killed:
            raise
        finally:
            self.restart_busy = False

    def on_break(self, conn, lost):
        super().on_break(conn, lost)
        self.clean_since = None

    # ---------------------------------------------------------------- oracle
    def boundary_check(self):
        # (1) at quiescent points a fresh Journaler on the victim's file image loads the live counters
        if self.qchecks < 4 and self.quiescent_pair() and not self.kill_done and self.phase == FAULT:
            v = self.cfg["victim"]
            if (v, self.gen[v]) not in self.dead:
                self.qchecks += 1
                self.check_stored_equals_live(v, "quiescent-point")
        # (1b) ... and at idle points of any kind - nothing runnable, no hook parked, no send in progress, whatever
        # the session state (mid-disconnect, awaiting a resend, logged out): everything an endpoint did so far is
        # completed, so a new object on its journal must load what the live one holds. Judged when the counters
        # moved since the last look while an endpoint was not ACTIVE (the ACTIVE case is clause 1).
        if (self.ichecks < 6 and self.phase == FAULT and not self.kill_done and not self.restart_busy
                and not self.loop._ready and not self.pending_hooks and not self.inprogress and self.net.conns):
            a, b = self.eps["A"], self.eps["B"]
            seen = (self.counters("A"), self.counters("B"))
            if seen != self.idle_seen and (a.connection_state != ACTIVE or b.connection_state != ACTIVE):
                self.idle_seen = seen
                self.ichecks += 1
                self.probe("idle_point_outside_active_checked")
                for label in ("A", "B"):
                    if (label, self.gen[label]) not in self.dead:
                        self.check_stored_equals_live(label, "idle-point")
        try:
            super().boundary_check()
        except Violation as e:
            raise Violation(e.clause, e.signature.replace("C07/", "C09/", 1), e.text)

    def check_stored_equals_live(self, label, when):
        j = self.journals[label]
        live = (j.live.next_num_in, j.live.next_num_out)
        image = jfam.read_image(self.db_path(label), None)
        tmp = os.path.join(self.run_dir, f"probe-{label}-{self.evno}.db")
        jfam.write_image(tmp, image)
        saved = asyncfix.journaler.sqlite3
        asyncfix.journaler.sqlite3 = jfam.REAL_SQLITE3
        try:
            from asyncfix.journaler import Journaler

            pj = Journaler(tmp)
            s = pj.create_or_load(j.live.target_comp_id, j.live.sender_comp_id)
            got = (s.next_num_in, s.next_num_out)
            close_journal(pj)
        finally:
            asyncfix.journaler.sqlite3 = saved
            jfam.remove_image(tmp)
        self.stat("stored_vs_live_checks")
        if got != live:
            which = "in" if got[0] != live[0] else "out"
            raise Violation("restored-counters", f"C09/restored-counters-differ/{when}/{which}",
                            f"{label} at {'an idle' if when == 'idle-point' else 'a quiescent'} point: live (next_in, next_out)={live}, a new object on the journal file loads {got}")

    def ep_event(self, ep, kind, *args):
        super().ep_event(ep, kind, *args)

    def all_delivered(self, label):
        return self.delivered_old[label] + list(self.eps[label].delivered)

    def delivery_clauses(self, prop="C09"):
        problems = []
        for src, dst in (("A", "B"), ("B", "A")):
            sends = self.sends[src]
            order = {e["mid"]: i for i, e in enumerate(sends)}
            fps = {e["mid"]: e["fp"] for e in sends}
            seen = set()
            last = -1
            tolerated = self.killed_last_delivery[dst]
            for (_, mid, msg) in self.all_delivered(dst):
                if mid not in order:
                    problems.append(("unknown-message", f"{dst} received {mid!r} never sent by {src}"))
                    continue
                if mid in seen:
                    if mid == tolerated:
                        # in flight inside the killed incarnation: delivered to it, not yet recorded durably
                        tolerated = None
                        self.probe("redelivery_of_the_message_in_flight_at_the_kill")
                        continue
                    problems.append(("duplicate", f"{dst} received {mid} twice"))
                    continue
                seen.add(mid)
                if order[mid] < last:
                    problems.append(("reorder", f"{dst} received {mid} after a later message"))
                last = max(last, order[mid])
                if body_fingerprint(msg, "recv") != fps[mid]:
                    problems.append(("content", f"{dst} received {mid} with different content"))
            for e in sends:
                if e["status"] == "accepted" and e["mid"] not in seen:
                    problems.append(("lost", f"{src}'s accepted message {e['mid']} never reached {dst}"))
        return problems

    def wire_frames(self, label):
        return [(ev, cid, d, fr) for (ev, cid, d, fr, dropped) in self.frames_written(label) if not dropped]

    def judge(self):
        mech = "kill=" + (self.kill_ctx["kind"] if self.kill_ctx else "none") + f"/graceful={min(self.restarts, 2)}"
        a, b = self.eps["A"], self.eps["B"]
        # (3) a MsgSeqNum is never reused for a different message
        for label in ("A", "B"):
            first = {}
            for (ev, cid, d, fr) in self.wire_frames(label):
                t = d.get("35")
                if t == "4":
                    continue
                try:
                    n = int(d.get("34", ""))
                except ValueError:
                    continue
                body = tuple((k, v) for k, v in refframer.fields(fr) if k.decode("latin-1") not in SKIP_CMP)
                if n not in first:
                    first[n] = (body, d.get("43") == "Y", ev)
                    continue
                if first[n][0] != body:
                    pd = d.get("43") == "Y"
                    raise Violation("number-reused", f"C09/msgseqnum-reused-for-different-message/possdup={'Y' if pd else 'N'}/{mech}",
                                    f"{label} sent MsgSeqNum {n} twice with different content: 35={dict(first[n][0]).get(b'35', b'?').decode()} "
                                    f"first, then 35={t} (PossDup={'Y' if pd else 'N'})")
        # (4) no ResendRequest when nothing was lost
        if self.clean_since is not None and not self.kill_done:
            ev0, with_logout, old_cid = self.clean_since
            # something the peer wrote into the abandoned connection after the restart began is lost for
            # real (the Logout exchange itself apart): then a ResendRequest is the right reaction
            lost_for_real = False
            for label in ("A", "B"):
                for (ev, cid, d, fr, dropped) in self.frames_written(label):
                    if ev > ev0 and cid == old_cid and d.get("35") != "5":
                        lost_for_real = True
            for label in ("A", "B"):
                if lost_for_real:
                    self.probe("restart_with_frames_written_into_the_abandoned_connection")
                    break
                for (ev, cid, d, fr) in self.wire_frames(label):
                    # judged on the first connection after the restart only: when that attempt fails
                    # (e.g. the acceptor still holds the old connection) its Logon is lost for real
                    if ev > ev0 and d.get("35") == "2" and cid == old_cid + 1:
                        raise Violation("needless-resend-request", f"C09/resend-request-after-clean-restart/logout={with_logout}/from={label}",
                                        f"{label} sent ResendRequest(7={d.get('7')}) after a graceful restart at a quiescent point with "
                                        "nothing in flight and agreeing counters")
            self.probe("clean_restart_followed_without_resend_request")
        # (2) C07's delivery oracle across incarnations
        problems = self.delivery_clauses()
        if problems:
            clause, detail = problems[0]
            raise Violation(clause, f"C09/{clause}/{mech}", detail + f" [{len(problems)} problem(s)]")
        if a.connection_state != ACTIVE or b.connection_state != ACTIVE:
            raise Violation("not-recovered", f"C09/not-recovered/A={a.connection_state.name}/B={b.connection_state.name}/{mech}",
                            f"{self.loop.time() - self.t_fault_end:.1f}s after the last fault: A={a.connection_state.name} "
                            f"B={b.connection_state.name} (hb={self.cfg['hb']})")
        ain, aout = self.counters("A")
        bin_, bout = self.counters("B")
        if ain != bout or bin_ != aout:
            raise Violation("counters", f"C09/counters-disagree/{mech}", f"A(in={ain},out={aout}) B(in={bin_},out={bout})")
        if self.stop_reason != "settled":
            raise Violation("not-recovered", f"C09/not-quiescent/{self.stop_reason}/{mech}",
                            f"run ended by {self.stop_reason} without reaching quiescence")
        # stored == live at the very end, for both
        for label in ("A", "B"):
            self.check_stored_equals_live(label, "final-quiescence")

    def result(self):
        res = super().result()
        res["n_crossings"] = self.n_cross
        res["crossing_kinds"] = self.cross_log
        return res

    def sample(self):
        d = super().sample()
        d["victim"] = self.cfg["victim"]
        d["kill"] = self.kill_ctx and self.kill_ctx["kind"]
        d["crossings"] = self.n_cross
        return d
