"""C05 family: outbound numbering and journaling of new messages.

One real endpoint against a well-behaved scripted peer over a fault-free
transport (back-pressure and chunking on).  An application task issues send
attempts of every type one after another, in whatever state the endpoint is
in (allowed and refused ones); peer traffic makes the library send on its own
(Logon reply, Heartbeat for a TestRequest, ResendRequest for a gap, Logout for a
wrong TestReqID, watchdog TestRequests, replays for a ResendRequest).
"""
import os
import random
import shutil

from asyncfix import FIXMessage, FMsg, FTag
from asyncfix.connection import ConnectionState
from asyncfix.errors import FIXConnectionError
from asyncfix.message import MessageDirection

from .. import refframer
from ..core import Violation
from .peer import PeerSim

BIG = 2**62
SEND_TYPES = ["D", "8", "0", "A", "5", "1raw", "1", "2", "U7", "D34"]
STIM_KINDS = ["testreq", "app", "gap", "rr", "hb", "hb_wrong", "logout"]


def make_config(seed, tier="quick"):
    r = random.Random(seed ^ 0xC05)
    thorough = tier == "thorough"
    out0 = r.choice([1, 1, 2, 7, 100, 2**31, 10**12])
    return dict(
        u8=random.Random(seed ^ 0xC05A8).random() < 0.3,  # non-ASCII values in application messages (separate stream)
        empty_vals=random.Random(seed ^ 0xC05E0).random() < 0.25,  # fields with an empty value, outbound and echoed from inbound
        # journal in a file, stored counter read the way another process would (own connection: committed data only)
        file_journal=random.Random(seed ^ 0xC05F1).random() < 0.3,
        bad_vals=random.Random(seed ^ 0xC05BD).random() < 0.2,  # messages the encoder has to refuse
        seed=seed,
        eut_role=r.choice(["acceptor", "initiator"]),
        hb=r.choice([2, 5, 30, 1000]),
        eut_in=r.choice([1, 1, 4]),
        eut_out=out0,
        prepop_rows=r.choice([0, 0, 3]),
        auto_logon=r.random() < 0.7,
        n_sends=r.randint(1, 30 if not thorough else 60),
        send_types=r.sample(SEND_TYPES, r.randint(2, len(SEND_TYPES))),
        n_stim=r.randint(0, 10 if not thorough else 25),
        stim_kinds=r.sample(STIM_KINDS, r.randint(1, len(STIM_KINDS))),
        early=r.random() < 0.5,  # try sends in pre-logon / disconnected states as well
        p_pause=r.choice([0.0, 0.0, 0.3, 0.6]),
        p_hook=r.choice([0.0, 0.0, 0.3]),  # only on_state_change: the auto-Logon task may be parked inside its send
        chunk_law=r.choice(["whole", "whole", "mixed", "small"]),
        p_act=r.choice([0.5, 0.9]),
        p_more=r.choice([0.0, 0.4]),
        p_delay=r.choice([0.0, 0.02, 0.2]),
        w_send=r.choice([1.0, 3.0]),
        w_stim=r.choice([0.5, 2.0]),
        max_actions=120 if not thorough else 300,
        settle_s=10.0,
        settle_extra_s=0.5,
        max_boundaries=8000,
        max_handles=400_000,
    )


class OutboundSim(PeerSim):
    family = "outbound"

    def setup_family(self):
        cfg = self.cfg
        self.peer.auto.update(logon=True, testreq=True, resend=True, logout=True)
        self.peer.next_out = cfg["eut_in"]
        self.eut.auto_logon = cfg["auto_logon"]
        self.rng_aux = random.Random(cfg["seed"] ^ 0x34)
        self.busy = False
        self.n_sends = 0
        self.n_stim = 0
        self.app_id = 0
        self.send_log = []
        self.checked_upto = 0  # index into wire() already verified against the journal
        self.max_new = cfg["eut_out"] - 1
        self.seen_new = 0
        if cfg["prepop_rows"]:
            # rows of an earlier life of the session below the starting counter
            j, sess = self.journal, self.journal.live
            sender, target = sess.sender_comp_id, sess.target_comp_id
            lo = max(1, cfg["eut_out"] - cfg["prepop_rows"])
            for n in range(lo, cfg["eut_out"]):
                fr = refframer.build("D", [("11", f"OLD-{n}"), ("55", "ES")], sender, target, n, "20231114-00:00:00.000")
                j.persist_msg(fr, sess, MessageDirection.OUTBOUND)
        self.logon_pending = self.eut_role == "acceptor"

    def hook_p(self, label, hname):
        return self.cfg["p_hook"] if hname == "on_state_change" else 0.0

    def peer_event(self, kind):
        if kind == "connected" and self.eut_role == "acceptor":
            self.peer.send("A", [("98", "0"), ("108", self.cfg["hb"])], spec={"stim": "logon"})

    # --------------------------------------------------------------- actions
    def session_up(self):
        return self.eut.connection_state in (
            ConnectionState.ACTIVE, ConnectionState.RESENDREQ_AWAITING,
            ConnectionState.RESENDREQ_HANDLING, ConnectionState.RECV_SEQNUM_TOO_HIGH,
        )

    def enabled_actions(self):
        out = self.net_enabled()
        cfg = self.cfg
        if not self.busy and self.n_sends < cfg["n_sends"]:
            if self.session_up():
                out.append((("send",), cfg["w_send"]))
            elif cfg["early"]:
                out.append((("send",), 0.3))
        if self.n_stim < cfg["n_stim"] and self.peer.connected and self.session_up():
            out.append((("stim",), cfg["w_stim"]))
        if self.eut_role == "acceptor" and not self.peer.connected and self.n_boundaries > 3 and \
                self.eut.connection_state in (ConnectionState.DISCONNECTED_BROKEN_CONN,
                                              ConnectionState.DISCONNECTED_WCONN_TODAY) and self.no_live_conn():
            out.append((("peer_connect",), 1.0))
        return out

    def no_live_conn(self):
        return not any(c.alive() for c in self.net.conns)

    def concretize(self, proto):
        r = self.rng
        if proto[0] == "send":
            types = self.cfg["send_types"]
            st = self.eut.connection_state
            if st == ConnectionState.NETWORK_CONN_ESTABLISHED and not self.cfg["auto_logon"] and r.random() < 0.6:
                return ["send", "A"]
            return ["send", r.choice(types)]
        if proto[0] == "stim":
            kind = r.choice(self.cfg["stim_kinds"])
            if kind == "rr":
                L = max(1, self.live().next_num_out - 1)
                lo = max(1, L - 6)
                b = r.randint(lo, L)
                if r.random() < 0.15:
                    # a request for numbers we have not sent yet (a peer that believes to be ahead of us), or an
                    # invalid range: inbound traffic must never move the outbound counter
                    b = L + r.choice([1, 2, 7, 40])
                return ["stim", "rr", b, r.choice([0, b, L])]
            if kind == "gap":
                return ["stim", "gap", r.randint(1, 3), 0]
            return ["stim", kind, 0, 0]
        return super().concretize(proto)

    def can_fire_family(self, a):
        if a[0] == "send":
            return not self.busy and self.n_sends < self.cfg["n_sends"]
        if a[0] == "stim":
            return self.n_stim < self.cfg["n_stim"] and self.peer.connected
        if a[0] == "peer_connect":
            return self.eut_role == "acceptor" and not self.peer.connected and self.no_live_conn()
        return False

    def build_msg(self, t, k):
        mark = f"S-{k}"
        if t in ("D", "8", "U7"):
            m = FIXMessage(t, {11: mark, 55: "NQ", 54: "2", 38: k + 1, 44: "7.5"})
            if self.cfg.get("u8"):
                m[58] = f"n\u00f6te {k} \u20ac\u4e2d\U0001f600"
            if self.cfg.get("empty_vals") and k % 3 == 0:
                m[58] = ""
            if self.cfg.get("u8") is False and k % 5 == 4:
                m[97] = "Y"  # PossResend: a NEW message (own number, journaled) that may repeat an earlier one
            if self.cfg.get("u8") is False and k % 5 == 2:
                m[553] = "trader7"
                m[554] = "s3cret-" + str(k)  # (the journal holds the bytes that were sent, whatever they are)
            if self.cfg.get("bad_vals") and k % 4 == 3 and getattr(self, "max_new", 0) >= self.cfg["eut_out"]:
                # the application re-sends an old message itself (PossDupFlag=Y under a number that is journaled
                # already): the journal refuses the duplicate, the send fails - and must leave no trace either
                m.set(43, "Y", replace=True)
                m.set(34, self.max_new, replace=True)
                self.fault("application_level_retransmission_attempt")
                return m
            if self.cfg.get("bad_vals") and k % 4 == 1:
                # a message the encoder cannot turn into bytes: the send fails - and must leave no trace
                if k % 8 == 1:
                    m.set(58, "lone surrogate \ud800 in a value", replace=True)
                else:
                    from asyncfix.errors import RepeatingTagError

                    m.set(20229, RepeatingTagError)  # what decode() leaves behind for a repeated tag
                self.fault("send_of_unencodable_message")
            return m
        if t == "D34":
            # a new message object that happens to carry a MsgSeqNum already (copied from a received or
            # journaled message): it is still a new message and takes the next number
            lv = self.live()
            n = self.rng_aux.choice([1, 2, max(1, lv.next_num_out - 1), lv.next_num_out + 5])
            m = FIXMessage("D", {11: mark, 55: "NQ", 54: "2", 38: k + 1, 44: "7.5", 34: n})
            if self.rng_aux.random() < 0.5:
                m[43] = "N"
            return m
        if t == "0":
            return FIXMessage(FMsg.HEARTBEAT, {112: mark})
        if t == "A":
            return FIXMessage(FMsg.LOGON, {FTag.EncryptMethod: "0", FTag.HeartBtInt: self.cfg["hb"]})
        if t == "5":
            return FIXMessage(FMsg.LOGOUT, {58: mark})
        if t == "1raw":
            return FIXMessage(FMsg.TESTREQUEST, {112: mark})
        if t == "2":
            n = max(1, self.live().next_num_in - 1)
            return FIXMessage(FMsg.RESENDREQUEST, {FTag.BeginSeqNo: n, FTag.EndSeqNo: "0"})
        raise AssertionError(t)

    def fire_family(self, a):
        if a[0] == "send":
            t = a[1]
            k = self.n_sends
            self.n_sends += 1
            self.busy = True
            ent = dict(k=k, type=t, state=self.eut.connection_state.name, status="pending", exc=None)
            self.send_log.append(ent)
            self.rec("send_call", k, t, ent["state"])
            self.spawn(self._do_send(ent, t, k), f"app-send-{k}")
        elif a[0] == "stim":
            _, kind, x, y = a
            self.n_stim += 1
            p = self.peer
            if kind == "rr":
                p.send("2", [("7", x), ("16", y)], spec={"stim": "rr"})
            elif kind == "testreq":
                tid = "" if self.cfg.get("empty_vals") and self.n_stim % 2 else f"PT{self.n_stim}"
                p.send("1", [("112", tid)], spec={"stim": "tr"})
            elif kind == "hb":
                p.send("0", [], spec={"stim": "hb"})
            elif kind == "hb_wrong":
                p.send("0", [("112", "424242")], spec={"stim": "hb_wrong"})
            elif kind == "logout":
                p.send("5", [("58", "bye")], spec={"stim": "logout"})
            elif kind in ("app", "gap"):
                self.app_id += 1
                body = [("11", f"P-{self.app_id}"), ("55", "ES"), ("54", "1"), ("38", "1"), ("44", "1")]
                if kind == "app":
                    p.send("D", body, spec={"stim": "app"})
                else:
                    p.send("D", body, seq=p.next_out + x, spec={"stim": "gap"})
        elif a[0] == "peer_connect":
            self.peer_connect()
        else:
            super().fire_family(a)

    def snapshot(self):
        lv = self.live()
        return dict(
            live_out=lv.next_num_out,
            stored=self.journal.stored(),
            rows=len(self.journal.get_all_msgs(direction=MessageDirection.OUTBOUND)),
            writes=len(self.writes.get("E", [])),
        )

    async def _do_send(self, ent, t, k):
        eut = self.eut
        snap = self.snapshot()
        it0 = self.loop.n_iters
        try:
            if t == "1":
                await eut.send_test_req()
            else:
                await eut.send_msg(self.build_msg(t, k))
        except FIXConnectionError as e:
            ent["status"] = "refused"
            ent["exc"] = "FIXConnectionError"
            self.rec("send_refused", k, t)
            self.busy = False
            self.probe("refused_in_" + ent["state"])
            after = self.snapshot()
            if self.loop.n_iters != it0:
                # the refusal came after a suspension (state hook): other tasks may have sent meanwhile, the
                # before/after comparison of the shared counters says nothing about this send
                self.probe("refused_after_a_suspension")
            elif after != snap and self.violation is None:
                diff = {x: (snap[x], after[x]) for x in snap if snap[x] != after[x]}
                what = "+".join(sorted(diff))
                self.violation = Violation(
                    "refused-send-had-effects", f"C05/refused-send-had-effects/{what}/state={ent['state']}/type={t}",
                    f"send of {t} refused in {ent['state']} ({str(e)[:60]!r}) but {diff} changed (before, after)")
                self._stop("violation")
            return
        except BaseException as e:
            ent["status"] = "raised"
            ent["exc"] = type(e).__name__
            self.rec("send_raised", k, t, type(e).__name__)
            self.busy = False
            self.probe("send_raised_" + type(e).__name__)
            if not isinstance(e, Exception):
                raise
            return
        ent["status"] = "ok"
        self.rec("send_ok", k, t)
        self.busy = False
        self.probe("accepted_in_" + ent["state"])
        self.after_completed_send(ent)

    # ---------------------------------------------------------------- oracle
    def wire(self):
        """EUT frames in wire (stream) order: (evno, fdict, frame, dropped)."""
        return [(ev, d, fr, dropped) for (ev, cid, d, fr, dropped) in self.frames_written("E")]

    def scan_new_frames(self):
        """Verify numbering of not yet verified wire frames; returns the new ones."""
        w = self.wire()
        fresh = []
        for (ev, d, fr, dropped) in w[self.checked_upto:]:
            t = d.get("35")
            if t == "4" or d.get("43") == "Y":
                continue
            try:
                n = int(d.get("34", ""))
            except ValueError:
                raise Violation("numbering", "C05/frame-without-number", f"new frame without numeric MsgSeqNum: {fr[:80]!r}")
            want = self.max_new + 1
            if n != want:
                first = "first-frame" if self.seen_new == 0 else "later-frame"
                rel = "reused-or-lower" if n < want else "skipped"
                raise Violation("numbering", f"C05/new-frame-not-consecutive/{rel}/{first}/type={t}",
                                f"new frame 35={t} carries MsgSeqNum {n}, expected {want} "
                                f"(starting counter {self.cfg['eut_out']})")
            self.max_new = n
            self.seen_new += 1
            fresh.append((n, d, fr))
        self.checked_upto = len(w)
        return fresh

    def make_journal(self):
        self._jdir = None
        if not self.cfg.get("file_journal"):
            return super().make_journal()
        from .journal import make_run_dir
        from .pair import TapJournaler

        self._jdir = make_run_dir()
        return TapJournaler(os.path.join(self._jdir, "out.db"))

    def teardown(self):
        try:
            super().teardown()
        finally:
            if getattr(self, "_jdir", None):
                # (the Journaler closes its connection itself when it is collected; unlinking open files is fine)
                shutil.rmtree(self._jdir, ignore_errors=True)

    def durable_stored_out(self):
        """Next outbound number as a process that opens the journal file now would find it (None: in-memory
        journal).  Own connection, no waiting: sees committed data only."""
        if not getattr(self, "_jdir", None):
            return None
        import sqlite3

        lv = self.live()
        c = sqlite3.connect("file:" + os.path.join(self._jdir, "out.db") + "?mode=ro", uri=True, timeout=0)
        try:
            row = c.execute("SELECT outboundSeqNo FROM session WHERE targetCompId = ? AND senderCompId = ?",
                            (lv.target_comp_id, lv.sender_comp_id)).fetchone()
        except sqlite3.OperationalError as e:
            return "locked: " + str(e)
        finally:
            c.close()
        self.stat("durable_counter_reads")
        return None if row is None else row[0] + 1

    def check_durable(self, when):
        d = self.durable_stored_out()
        if d is not None and d != self.max_new + 1:
            raise Violation("stored-counter", f"C05/stored-next-out-not-durable/{when}",
                            f"a process opening the journal file now finds next outbound number {d}, last number sent "
                            f"{self.max_new} (the journal's own connection says {self.journal.stored()[1]})")

    def check_journal(self, fresh, when):
        for (n, d, fr) in fresh:
            got = self.journal.recover_msg(self.live(), MessageDirection.OUTBOUND, n)
            if got != fr:
                what = "missing" if got is None else "different"
                raise Violation("journal", f"C05/sent-bytes-not-in-journal/{what}/{when}",
                                f"frame 35={d.get('35')} 34={n} written to the transport is {what} in the journal")

    def after_completed_send(self, ent):
        if self.violation is not None:
            return
        try:
            fresh = self.scan_new_frames()
            self.check_journal(fresh, "after-send")
            stored_out = self.journal.stored()[1]
            if stored_out != self.max_new + 1:
                raise Violation("stored-counter", "C05/stored-next-out-not-last-plus-one/after-send",
                                f"after a completed send of {ent['type']}: stored next outbound number {stored_out}, "
                                f"last number sent {self.max_new}")
            self.check_durable("after-send")
        except Violation as v:
            self.violation = v
            self._stop("violation")

    def fault_phase_over(self):
        if super().fault_phase_over():
            return True
        cfg = self.cfg
        return self.n_sends >= cfg["n_sends"] and self.n_stim >= cfg["n_stim"] and not self.busy

    def converged(self):
        return not self.busy

    def judge(self):
        fresh = self.scan_new_frames()
        self.check_journal(fresh, "at-end")
        if self.busy:
            self.probe("send_unfinished_at_end")
            return
        stored_out = self.journal.stored()[1]
        live_out = self.live().next_num_out
        if stored_out != self.max_new + 1 or live_out != self.max_new + 1:
            raise Violation("stored-counter", "C05/stored-next-out-not-last-plus-one/at-end",
                            f"stored next outbound number {stored_out}, live {live_out}, last number sent {self.max_new}")
        self.check_durable("at-end")
        if self.seen_new >= 3:
            self.probe("runs_with_three_or_more_new_frames")

    def abstract_state(self):
        lv = self.live()
        return (int(self.eut.connection_state), self.busy, min(self.seen_new, 8), self.peer.connected,
                min(len(self.net.conns), 3))

    def sample(self):
        d = super().sample()
        d["sends(k,type,state,status,exc)"] = [(e["k"], e["type"], e["state"], e["status"], e["exc"]) for e in self.send_log[:30]]
        d["wire(35,34,43)"] = [(f.get("35"), f.get("34"), f.get("43")) for (_, f, _, _) in self.wire()[:50]]
        return d
