"""C04 family: a logged-on real endpoint against an arbitrary (possibly
misbehaving) counterparty with correct CompIDs.  Oracle = reference receiver."""
import random

from asyncfix.connection import ConnectionState

from ..core import HarnessError, Violation
from .peer import PeerSim

STIM_TYPES = ["D", "D", "D", "8", "0", "1", "2", "GF", "GF", "RS"]


def make_config(seed, tier="quick"):
    r = random.Random(seed ^ 0xC04)
    thorough = tier == "thorough"
    start = r.choice([1, 1, 2, 5, 20])
    cfg = dict(
        seed=seed,
        eut_role=r.choice(["acceptor", "initiator"]),
        hb=1000,
        eut_in=start,
        eut_out=r.choice([1, 1, 3, 10]),
        logon_gap=r.choice([0, 0, 0, 1, 3]),
        n_stim=r.randint(1, 40 if not thorough else 80),
        p_hook=r.choice([0.0, 0.0, 0.2, 0.5]),
        p_act=0.9,
        p_more=r.choice([0.0, 0.3, 0.6]),
        p_delay=0.0,
        chunk_law="whole",
        w_rel=dict(below=r.choice([0.0, 0.5, 1.0]), at=r.choice([2.0, 4.0]), above1=r.choice([0.3, 1.0]),
                   far=r.choice([0.0, 0.3, 1.0])),
        p_possdup=r.choice([0.0, 0.2, 0.5]),
        avoid_backward_reset=r.random() < 0.5,
        stim_types=r.sample(STIM_TYPES, r.randint(3, len(STIM_TYPES))),
        max_actions=200 if not thorough else 400,
        settle_s=5.0,
        settle_extra_s=1.0,
        max_boundaries=4000,
    )
    # fault injection (separate stream): the application's on_message() raises now and then - the message was handed
    # over all the same and its number is consumed
    cfg["p_hook_raise"] = random.Random(seed ^ 0xC04E7).choice([0.0, 0.0, 0.0, 0.15, 0.4])
    # fault placement (separate stream, 1 run in 5): the application ends the session with a Logout while the write side
    # is under back-pressure - its disconnect() stays suspended in drain() (the session fields are reset, the state is
    # not changed yet) and the reader task goes on processing what the counterparty sends into that window
    rc = random.Random(seed ^ 0xC04C1)
    cfg["closing_window"] = rc.random() < 0.2
    cfg["closing_after"] = rc.randint(0, max(0, cfg["n_stim"] - 2))
    return cfg


class Model:
    def __init__(self, E):
        self.E = E
        self.awaiting = False
        self.W = 0


class InboundSim(PeerSim):
    family = "inbound"

    def hook_raise_p(self, label, hname):
        # injected application failures: on_message() (the message was handed over all the same) and the state hook
        # announcing RESENDREQ_AWAITING (the request is on the wire, the state is set: one request, gap tracked)
        p = self.cfg.get("p_hook_raise", 0.0)
        if hname == "on_message":
            return p
        if hname == "on_state_change" and self.state_hook_arg == ConnectionState.RESENDREQ_AWAITING:
            return p
        return 0.0

    def setup_family(self):
        cfg = self.cfg
        self.peer.auto.update(testreq=False, resend=False, logout=False)
        self.peer.next_out = cfg["eut_in"] + cfg["logon_gap"]
        self.model = Model(cfg["eut_in"])
        self.fed_ptr = 0  # index into peer.sent of the next frame the EUT will decode
        self.cur = None  # (index into peer.sent, first evno of its window)
        self.n_stim = 0
        self.logon_done = False
        self.history_over = False
        self.stim_log = []
        self.app_id = 0
        self.closing = False
        if self.eut_role == "acceptor":
            self.logon_pending = True
        else:
            self.logon_pending = False

    def peer_event(self, kind):
        if kind == "connected" and self.eut_role == "acceptor" and self.logon_pending:
            self.logon_pending = False
            self.peer.send("A", [("98", "0"), ("108", self.cfg["hb"])], spec={"stim": "logon"})

    def hook_p(self, label, hname):
        return self.cfg["p_hook"] if hname == "on_message" else 0.0

    # --------------------------------------------------------------- actions
    def session_up(self):
        st = self.eut.connection_state
        return st in (ConnectionState.ACTIVE, ConnectionState.RESENDREQ_AWAITING,
                      ConnectionState.RESENDREQ_HANDLING, ConnectionState.RECV_SEQNUM_TOO_HIGH)

    def enabled_actions(self):
        out = self.net_enabled()
        if (
            not self.history_over
            and self.n_stim < self.cfg["n_stim"]
            and self.peer.connected
            and self.session_up()
        ):
            out.append((("stim",), 3.0))
            if self.cfg.get("closing_window") and not self.closing and self.n_stim >= self.cfg["closing_after"] \
                    and self.logon_done_for_closing():
                out.append((("closing",), 3.0))
        return out

    def logon_done_for_closing(self):
        return any(tr is not None and tr.label == "E" and not tr.paused and not tr._closing
                   for c in self.net.conns if not c.broken for tr in c.tr)

    async def _app_logout(self):
        try:
            await self.eut.disconnect(ConnectionState.DISCONNECTED_WCONN_TODAY, logout_message="end of day")
            self.rec("app_logout_done")
        except Exception as e:
            self.rec("app_logout_raised", type(e).__name__)

    def fault_phase_over(self):
        if super().fault_phase_over():
            return True
        if self.history_over or self.n_stim >= self.cfg["n_stim"]:
            return not any(c.q[0] or c.q[1] for c in self.net.conns if not c.broken) and not self.pending_hooks
        return self.n_boundaries > 200 and not self.session_up()

    def concretize(self, proto):
        if proto[0] != "stim":
            return super().concretize(proto)
        r = self.rng
        cfg = self.cfg
        E = self.model.E
        t = r.choice(cfg["stim_types"])
        rels = [(k, w) for k, w in cfg["w_rel"].items() if w > 0 and not (k == "below" and E <= 1)]
        x = r.random() * sum(w for _, w in rels)
        rel = rels[-1][0]
        for k, w in rels:
            x -= w
            if x < 0:
                rel = k
                break
        if rel == "below":
            seq = max(1, E - r.randint(1, 3))
        elif rel == "at":
            seq = E
        elif rel == "above1":
            seq = E + 1
        else:
            seq = E + r.randint(2, 50)
        pd = r.random() < cfg["p_possdup"]
        newseq = None
        if t in ("GF", "RS"):
            c = r.random()
            if c < 0.15 and not (cfg["avoid_backward_reset"]):
                newseq = max(1, E - r.randint(1, 3))
            elif c < 0.25:
                newseq = E
            elif c < 0.6:
                newseq = seq + 1
            elif c < 0.85:
                newseq = seq + r.randint(2, 6)
            else:
                newseq = E + r.randint(1, 8)
        return ["stim", t, seq, int(pd), newseq]

    def can_fire_family(self, a):
        if a[0] == "closing":
            return (not self.closing and not self.history_over and self.peer.connected and self.session_up()
                    and self.logon_done_for_closing())
        return (
            a[0] == "stim"
            and not self.history_over
            and self.peer.connected
            and self.n_stim < self.cfg["n_stim"]
        )

    def fire_family(self, a):
        if a[0] == "closing":
            self.closing = True
            self.fault("app_logout_under_backpressure_with_inbound_traffic")
            for conn in self.net.conns:
                for tr in conn.tr:
                    if tr is not None and tr.label == "E" and not tr.paused and not tr._closing:
                        tr.paused = True
                        self.rec("pause", tr.label, conn.cid)
                        tr.protocol.pause_writing()
            self.spawn(self._app_logout(), "app-logout")
            return
        if a[0] != "stim":
            return super().fire_family(a)
        _, t, seq, pd, newseq = a
        self.n_stim += 1
        pd = bool(pd)
        if t in ("D", "8"):
            self.app_id += 1
            body = [("11", f"P-{self.app_id}"), ("55", "ES"), ("54", "1"), ("38", "10"), ("44", "1.5")]
            self.peer.send(t, body, seq=seq, possdup=pd, count=False, spec={"stim": 1})
        elif t == "0":
            self.peer.send("0", [], seq=seq, possdup=pd, count=False, spec={"stim": 1})
        elif t == "1":
            self.peer.send("1", [("112", f"T{self.n_stim}")], seq=seq, possdup=pd, count=False, spec={"stim": 1})
        elif t == "2":
            self.peer.send("2", [("7", "1"), ("16", "0")], seq=seq, possdup=pd, count=False, spec={"stim": 1})
        elif t == "GF":
            self.peer.send("4", [("123", "Y"), ("36", newseq)], seq=seq, possdup=pd, count=False,
                           spec={"stim": 1, "gf": 1, "new": newseq})
        elif t == "RS":
            self.peer.send("4", [("36", newseq)], seq=seq, possdup=pd, count=False,
                           spec={"stim": 1, "gf": 0, "new": newseq})
        else:
            raise HarnessError(f"unknown stimulus {a}")

    # ---------------------------------------------------------------- oracle
    def on_decoded(self, ev, msg, consumed, buf, raw):
        if msg is None or self.violation is not None:
            return
        prev, self.cur = self.cur, None
        sent = self.peer.sent
        if self.fed_ptr >= len(sent):
            raise HarnessError("EUT decoded a frame the peer never sent")
        ent = sent[self.fed_ptr]
        if ent["frame"] != raw and self.closing:
            # disconnect() empties the receive buffer when it starts: frames that were received behind the one being
            # processed are dropped unseen (to the session that is the same as frames lost on the way)
            for j in range(self.fed_ptr + 1, len(sent)):
                if sent[j]["frame"] == raw:
                    self.probe("frames_dropped_from_the_buffer_by_a_starting_disconnect", j - self.fed_ptr)
                    self.fed_ptr = j
                    ent = sent[j]
                    break
        if ent["frame"] != raw:
            raise HarnessError(
                f"EUT decoded {raw[:60]!r}, expected peer frame #{self.fed_ptr} {ent['frame'][:60]!r}"
            )
        self.cur = (self.fed_ptr, ev)
        self.fed_ptr += 1
        self.close_window(ev, prev)

    def close_window(self, ev_end, cur):
        """Judge the EUT's reaction to the frame whose window ends now."""
        if cur is None or self.history_over or self.violation is not None:
            return
        idx, ev0 = cur
        ent = self.peer.sent[idx]
        if ent["spec"].get("stim") or ent["spec"].get("auto") == "logon":
            # (the logon frame itself: a logon above the expected number opens a gap)
            self.judge_frame(ent, ev0, ev_end)

    def judge_frame(self, ent, ev0, ev_end, is_logon=False):
        M = self.model
        s = ent["seq"]
        t = ent["type"]
        pd = ent["pd"]
        E = M.E
        gapfill = t == "4" and ent["spec"].get("gf") == 1
        resetmode = t == "4" and not gapfill
        n = ent["spec"].get("new")
        # what happened in the window
        delivered = [e for e in self.hist_slice(ev0, ev_end) if e[1] == "on_message" and e[2] == "E"]
        rr = []
        for (ev, cid, d, fr, dropped) in self.eut_writes():
            if ev0 < ev <= ev_end and d.get("35") == "2":
                rr.append(d)
        live = self.live().next_num_in
        st = self.eut.connection_state
        disconnected = st <= ConnectionState.DISCONNECTED_BROKEN_CONN
        rel = "below" if s < E else ("at" if s == E else "above")
        state0 = self.state_at(ev0)
        ctx = f"state={state0}/type={'GF' if gapfill else ('RS' if resetmode else t)}/rel={rel}/possdup={'Y' if pd else 'N'}"
        self.stim_log.append((t, s, pd, n, E, live, len(delivered), len(rr), st.name))
        is_app = t not in ("0", "1", "2", "4", "5", "A", "3")

        def bad(clause, text):
            raise Violation(clause, f"C04/{clause}/{ctx}", f"frame 35={t} 34={s} 43={'Y' if pd else 'N'}"
                            + (f" 36={n}" if n is not None else "") + f" while expecting {E}: {text}")

        # (1) delivery
        if delivered:
            if not (is_app and s == E and not resetmode):
                bad("delivered-not-expected", f"on_message called for MsgSeqNum {s}, expected inbound number was {E}")
            if len(delivered) > 1:
                bad("delivered-twice", "on_message called more than once for one frame")
        elif is_app and s == E and not disconnected:
            bad("not-delivered", "in-sequence application message was not handed to on_message")
        if disconnected:
            # the history ends at the first frame on which the receiver dropped the session
            if live < E and resetmode:
                # (the session happened to end in the same window, e.g. the application's own disconnect completing:
                # the backward move of a Reset-mode SequenceReset is the same defect with or without it)
                raise Violation("counter-moved-backwards", "C04/counter-moved-backwards/mode=reset",
                                f"frame 35={t} 34={s} 36={n}: inbound counter went {E} -> {live}")
            if live not in (E, E + 1) and not (t == "4" and n is not None and n > E and live == n):
                bad("counter-changed-on-disconnect", f"inbound counter {E} -> {live} although the session was dropped")
            self.history_over = True
            self.probe("history_ended_by_disconnect")
            return
        # (2)+(3) counter and ResendRequest discipline
        if resetmode:
            if n is not None and n > E:
                allowed = {n}
            else:
                allowed = {E}
            rr_rule = "either"
        elif s < E:
            allowed = {E}
            rr_rule = "forbidden" if M.awaiting else "either"
        elif s == E:
            if gapfill:
                allowed = {n} if (n is not None and n > E) else {E, E + 1}
            else:
                allowed = {E + 1}
            rr_rule = "forbidden"
        else:
            allowed = {E}
            rr_rule = "forbidden" if M.awaiting else "required"
        if self.closing and rr_rule == "required":
            # the application's disconnect() is in progress: whether a gap found now is still asked for is the
            # library's business - but one request at most, and none while one is outstanding
            rr_rule = "either"
            self.probe("gap_found_while_a_disconnect_is_in_progress")
            if len(rr) > 1:
                bad("duplicate-resend-request", f"{len(rr)} ResendRequests for one gap")
        if live not in allowed:
            if live < E:
                mode = "reset" if resetmode else ("gapfill" if gapfill else "other")
                raise Violation("counter-moved-backwards", f"C04/counter-moved-backwards/mode={mode}",
                                f"frame 35={t} 34={s} 36={n}: inbound counter went {E} -> {live}")
            bad("counter-jump", f"inbound counter went {E} -> {live}, allowed {sorted(allowed)}")
        if rr_rule == "required":
            if len(rr) == 0:
                bad("no-resend-request", f"frame numbered {s} above expected {E} caused no ResendRequest")
            if len(rr) > 1:
                bad("duplicate-resend-request", f"{len(rr)} ResendRequests for one gap")
            if rr[0].get("7") != str(E):
                bad("resend-request-wrong-begin", f"ResendRequest BeginSeqNo={rr[0].get('7')} expected {E}")
            M.awaiting = True
            M.W = s
            self.probe("gap_opened")
        elif rr_rule == "forbidden" and rr:
            bad("duplicate-resend-request" if M.awaiting else "spurious-resend-request",
                f"ResendRequest(7={rr[0].get('7')}) although " + ("one is outstanding" if M.awaiting else "there is no gap"))
        elif rr_rule == "either" and rr and not M.awaiting:
            M.awaiting = True
            M.W = s
        M.E = live
        if gapfill and s == E and n is not None and n > E + 1:
            self.probe("gap_fill_spanning_more_than_one_number")
        if M.awaiting and M.E > M.W:
            M.awaiting = False
            self.probe("gap_closed")
        if pd and s < E:
            self.probe("possdup_below_expected")

    def hist_slice(self, ev0, ev1):
        # hist is ordered by evno == index+1
        return self.hist[ev0 : ev1]

    def state_at(self, ev):
        st = None
        for (e, s) in self.eut.states:
            if e <= ev:
                st = s
            else:
                break
        return st.name if st is not None else "?"

    def converged(self):
        return True

    def judge(self):
        cur, self.cur = self.cur, None
        self.close_window(self.evno, cur)

    def abstract_state(self):
        M = self.model
        return (int(self.eut.connection_state), M.awaiting, min(M.W - M.E, 5) if M.awaiting else 0,
                len(self.pending_hooks) > 0, self.history_over)

    def sample(self):
        d = super().sample()
        d["stimuli(type,seq,possdup,newseq,E_before,E_after,delivered,resend_requests,state)"] = self.stim_log[:30]
        return d
