"""C12 family: the heartbeat watchdog in virtual time.

A real endpoint (either role, real heartbeat_timer_task, virtual clock) against
a scripted peer whose *arrival-time law* is drawn per run: silent, periodic
below / at / above the interval, bursts then silence, TestRequest answers
delayed by 0..2.5 intervals, wrong / missing TestReqID, peer TestRequests.
Network latency is zero (everything written is delivered at the next loop
iteration); what varies is when the peer speaks and the phase of the 1 s tick.
"""
import random

from asyncfix.connection import ConnectionState

from .. import refframer
from ..core import FAULT, Violation
from .peer import PeerSim

ACTIVE = ConnectionState.ACTIVE
LAWS = ["silent", "periodic", "burst", "answer", "answer_wrong", "answer_noid", "mixed", "peer_testreq", "answer_gap",
        "gap_silent", "garbled"]


def make_config(seed, tier="quick"):
    r = random.Random(seed ^ 0xC12)
    thorough = tier == "thorough"
    hb = r.choice([1, 2, 3, 5, 10, 30, 60, 120, r.randint(1, 120), r.randint(1, 20)])
    law = r.choice(LAWS)
    n_int = r.choice([4, 5, 6]) if not thorough else r.choice([6, 8, 12])
    span = n_int * hb
    plan = []  # (dt after ACTIVE, kind, arg)
    answer = dict(mode="never", delay=0.0)
    if law == "silent":
        pass
    elif law in ("periodic", "mixed"):
        f = r.choice([0.3, 0.5, 0.8, 0.95, 1.0, 1.05, 1.2, 1.5])
        per = max(0.2, f * hb + r.choice([0.0, 0.0, -0.5, 0.5, r.uniform(-1, 1)]))
        stop = span if r.random() < 0.5 else r.uniform(0.2, 1.0) * span
        t = r.uniform(0, per)
        while t < stop:
            plan.append((round(t, 3), r.choice(["hb", "hb", "app"]), None))
            t += per
        if law == "mixed":
            answer = dict(mode="ok", delay=round(r.uniform(0, 2.5) * hb, 3))
    elif law == "burst":
        for _ in range(r.randint(1, 3)):
            t = r.uniform(0, span * 0.6)
            for k in range(r.randint(1, 6)):
                plan.append((round(t + k * r.uniform(0.0, 0.4), 3), r.choice(["hb", "app"]), None))
    elif law == "answer":
        answer = dict(mode="ok", delay=round(r.choice([0.0, r.uniform(0, 1), r.uniform(0, 2.5) * hb, 2 * hb - 2.5,
                                                        2 * hb - 1.0, 2 * hb + 1.5]), 3))
        if answer["delay"] < 0:
            answer["delay"] = 0.0
    elif law == "answer_gap":
        # the right answer, but numbered one too high (as if an earlier frame of the peer was lost); the peer
        # then honours the ResendRequest with a GapFill
        answer = dict(mode="ok_gap", delay=round(r.choice([0.0, r.uniform(0, 1), r.uniform(0, 1.5) * hb]), 3))
    elif law == "answer_wrong":
        answer = dict(mode="wrong", delay=round(r.uniform(0, 1.2) * hb, 3))
    elif law == "answer_noid":
        answer = dict(mode="noid", delay=round(r.uniform(0, 1.2) * hb, 3))
    elif law == "gap_silent":
        # the peer sends one message numbered ahead (the endpoint asks for a resend and waits), then dies: a session
        # that awaits a resend is watched like any other
        plan.append((round(r.uniform(0.0, 1.5) * hb, 3), "gap", r.choice([1, 2, 5])))
    elif law == "garbled":
        # the socket stays busy but no message arrives: Heartbeats with a wrong CheckSum / single stray bytes, more
        # often than once per interval - for the watchdog this peer is silent
        per = max(0.2, r.uniform(0.2, 0.8) * hb)
        t = r.uniform(0, per)
        while t < span + 3 * hb:
            plan.append((round(t, 3), "noise", r.choice(["badsum", "byte"])))
            t += per
    elif law == "peer_testreq":
        per = max(0.3, r.uniform(0.2, 0.9) * hb)
        t = r.uniform(0, per)
        k = 0
        ids = random.Random(seed ^ 0xC121D).choice(["unique", "unique", "const", "coarse", "numeric"])
        while t < span:
            k += 1
            rid = {"unique": f"PQ{k}", "const": "TEST", "coarse": f"T{k // 3}", "numeric": str(1700000000 + k // 2)}[ids]
            plan.append((round(t, 3), "testreq", rid))
            t += per
    if r.random() < 0.15 and law not in ("answer_wrong", "gap_silent", "garbled"):
        # an unsolicited Heartbeat carrying a TestReqID nobody asked for, while nothing is outstanding
        plan.append((round(r.uniform(0, 0.5) * hb, 3), "hb_id", "777"))
    rq = random.Random(seed ^ 0xC1277)
    if rq.random() < 0.15 and law not in ("gap_silent", "garbled"):  # (after the gap the peer is dead: no further frames of its own)
        # the peer asks for a resend of an empty / invalid range (nothing to replay): ordinary valid traffic as far
        # as the watchdog is concerned, and the session has to be watched exactly as before afterwards
        plan.append((round(rq.uniform(0, 0.6) * span, 3), "peer_rr", rq.choice(["beyond", "zero", "inverted", "all"])))
    if r.random() < 0.2:
        # the application itself asks for a TestRequest now and then (public send_test_req)
        for _ in range(r.randint(1, 2)):
            plan.append((round(r.uniform(0, span), 3), "app_testreq", None))
    if r.random() < 0.3:
        # the local application keeps sending (outbound traffic says nothing about the peer being alive)
        per = max(0.2, r.uniform(0.15, 0.8) * hb)
        t = r.uniform(0, per)
        while t < span + 3 * hb:
            plan.append((round(t, 3), "app_send", None))
            t += per
    plan.sort()
    prelude = r.random() < 0.25
    return dict(
        # a first session that the peer drops; the judged session is the one after the reconnect (state left
        # behind by the first connection must not disturb the watchdog of the second)
        prelude_drop=prelude,
        wrong_dup=random.Random(seed ^ 0xC12D0).random() < 0.4,
        logon_hb=random.Random(seed ^ 0xC1208).choice([0, 0, 0, 1, 7 * hb, 1000]),
        prelude_mode=random.Random(seed ^ 0xC1290).choice(["peer_drop", "peer_drop", "app_logout"]),
        prelude_pause_s=random.Random(seed ^ 0xC1291).choice([0.4, 1.2, 2.3, 3.4]),
        prelude_drop_kind=random.Random(seed ^ 0xC1292).choice([None, None, "reset", "pipe", "timeout"]),
        prelude_after=round(r.uniform(0.05, 1.2) * hb, 3),
        prelude_reconnect=round(r.uniform(0.1, 3.0), 3),
        p_slow_close=r.choice([0.0, 0.5, 1.0]) if prelude else 0.0,
        slow_close_s=round(r.choice([0.3, 1.3, 2.6]), 3),
        early_app_testreq=r.random() < 0.15,
        seed=seed,
        eut_role=r.choice(["acceptor", "initiator"]),
        hb=hb,
        law=law,
        plan=plan,
        answer=answer,
        answer_first_only=r.random() < 0.2,
        horizon=round(span + 3 * hb + 4.5, 3),
        eut_in=r.choice([1, 1, 6]),
        eut_out=r.choice([1, 1, 9]),
        start_offset=round(r.random(), 3),
        peer_phase=round(r.random(), 3),
        chunk_law="whole",
        p_act=0.0,
        max_actions=10,
        max_boundaries=60000,
        max_fault_boundaries=60000,
        max_handles=400_000,
        settle_s=2.0,
        settle_extra_s=0.0,
    )


class WatchdogSim(PeerSim):
    family = "watchdog"

    def setup_family(self):
        cfg = self.cfg
        # (a well-behaved peer honours ResendRequests: needed by the answer_gap law and by a prelude whose
        # reconnect attempt was turned away, which costs the peer a Logon number)
        self.peer.auto.update(logon=True, testreq=False, resend=True, logout=False)
        self.peer.next_out = cfg["eut_in"]
        self.peer.on_frame_cb = self.on_peer_frame
        self.t0 = None  # EUT became ACTIVE
        self.t_end = None
        self.arrivals = []  # (time, type, 112) of valid inbound frames decoded by the EUT
        self.eut_tx = []  # (time, type, 112, seq)
        self.disconnects = []  # (time, state name)
        self.peer_answers = 0
        self.wrong_sent_at = []  # times at which a wrong-id heartbeat was sent
        self.app_id = 0
        self.n_eut_testreq = 0
        self.state_log = []
        self.prelude_state = "pending" if cfg.get("prelude_drop") else "none"
        self.n_retries = 0
        self._retry_pending = False

    def peer_event(self, kind):
        if kind == "connected" and self.eut_role == "acceptor":
            # (the HeartBtInt the peer asks for may differ from the period this endpoint was configured with: the
            # watchdog under test is the endpoint's own)
            self.peer.send("A", [("98", "0"), ("108", self.cfg.get("logon_hb") or self.cfg["hb"])], spec={"stim": "logon"})
        if kind in ("eof", "lost") and self.prelude_state == "dropped" and self.eut_role == "acceptor":
            self.prelude_state = "reconnecting"
            self.schedule_reconnect(self.cfg["prelude_reconnect"])
        elif kind in ("eof", "lost") and self.prelude_state == "reconnecting" and self.t0 is None \
                and self.eut_role == "acceptor" and self.n_retries < 12:
            # the acceptor was still closing the old connection and turned the new one away: try again
            # (one attempt at a time, like any sane client: EOF and connection-lost of one connection are one event)
            if self.schedule_reconnect(1.0):
                self.n_retries += 1

    def schedule_reconnect(self, delay):
        if self._retry_pending or self.peer.connected:
            return False
        self._retry_pending = True
        self.loop.call_later(delay, self._retry_connect)
        return True

    # zero-latency network: everything in flight is delivered at the next iteration
    def on_boundary(self):
        if self.phase == FAULT and self.loop is not None:
            hold = self.loop.time() < getattr(self, "hold_until", 0.0)
            for a in self.settle_actions():
                if hold and a[0] == "resume":
                    continue  # back-pressure kept up on purpose (prelude_mode app_logout)
                self.fire(a)
        super().on_boundary()

    def enabled_actions(self):
        return []

    def _replay_boundary(self):
        # the run is driven by virtual time and the plan in its config, not by chooser actions: a replay ends
        # its fault phase where the search run did (inline decisions still come from the trace)
        if self.fault_phase_over():
            self.begin_settle()
        else:
            self._record_run()

    def fault_phase_over(self):
        if self.t0 is None:
            return self.loop.time() - self.loop_start() > 30.0 + (4.0 * self.cfg["hb"] if self.cfg.get("prelude_drop") else 0.0)
        return self.loop.time() >= self.t0 + self.cfg["horizon"]

    def loop_start(self):
        from ..core import EPOCH
        return EPOCH

    def converged(self):
        return True

    # ---------------------------------------------------------- observations
    def ep_event(self, ep, kind, *args):
        now = self.loop.time()
        if kind == "on_connect" and self.cfg.get("early_app_testreq") and self.t0 is None:
            # an over-eager application: TestRequest before the Logon exchange (refused by the library)
            self.spawn(self.app_testreq("early"), "app-testreq-early")
        if kind == "state":
            st = args[0]
            self.state_log.append((now, st))
            if st == ACTIVE and self.t0 is None:
                if self.prelude_state == "pending":
                    # first session: the peer hangs up shortly afterwards
                    self.prelude_state = "active1"
                    self.loop.call_later(self.cfg["prelude_after"], self.prelude_close)
                elif self.prelude_state == "none" or (
                        self.prelude_state in ("dropped", "reconnecting")
                        and len(self.net.conns) > getattr(self, "prelude_nconns", 0)):
                    # (the judged session starts on a NEW connection: the first one may pass through ACTIVE once
                    # more while its own Logout is still being drained)
                    self.t0 = now
                    self.schedule_plan()
            if st <= ConnectionState.DISCONNECTED_BROKEN_CONN and self.t0 is not None:
                self.disconnects.append((now, st.name))

    def _retry_connect(self):
        self._retry_pending = False
        if not self.peer.connected and self.t0 is None:
            self.peer_connect()

    def prelude_close(self):
        self.prelude_nconns = len(self.net.conns)
        if self.peer.connected and self.cfg.get("prelude_mode") == "app_logout":
            # the first session is ended by the application itself with a Logout, under back-pressure: the Logout's
            # drain stays suspended for a while (watchdog ticks happen meanwhile), then everything is closed
            self.prelude_state = "dropped"
            self.fault("prelude_app_logout_under_backpressure")
            for conn in self.net.conns:
                for tr in conn.tr:
                    if tr is not None and tr.label == "E" and not tr.paused and not tr._closing:
                        tr.paused = True
                        self.rec("pause", tr.label, conn.cid)
                        tr.protocol.pause_writing()
            self.hold_until = self.loop.time() + self.cfg.get("prelude_pause_s", 1.5)
            self.spawn(self._app_logout(), "app-logout")
            return
        if self.peer.connected:
            self.prelude_state = "dropped"
            kind = self.cfg.get("prelude_drop_kind")
            live = [c for c in self.net.conns if not c.broken and not c.closed[0] and not c.closed[1]]
            if kind and live:
                # the first connection dies with a transport error (ECONNRESET / EPIPE / ETIMEDOUT) instead of a clean
                # close: the reader gets the error, wait_closed() of the endpoint's own close re-raises it
                self.fault("prelude_peer_drop_with_transport_error_" + kind)
                self.fire(["break", live[-1].cid, kind, kind, 0])
                return
            self.fault("prelude_peer_drop")
            self.peer.close()
        else:
            self.prelude_state = "dropped"
            if self.eut_role == "acceptor":
                self.prelude_state = "reconnecting"
                self.schedule_reconnect(self.cfg["prelude_reconnect"])

    async def _app_logout(self):
        try:
            await self.eut.disconnect(ConnectionState.DISCONNECTED_WCONN_TODAY, logout_message="end of day")
            self.rec("app_logout_done")
        except Exception as e:
            self.rec("app_logout_raised", type(e).__name__)

    def schedule_plan(self):
        for (dt, kind, arg) in self.cfg["plan"]:
            self.loop.call_at(self.t0 + dt + self.cfg["peer_phase"] * 0.0, self.peer_do, kind, arg)

    def peer_do(self, kind, arg):
        p = self.peer
        if self.phase != FAULT:
            return
        if not p.connected and kind not in ("app_send", "app_testreq"):
            return
        if kind == "hb":
            p.send("0", [], spec={"plan": "hb"})
        elif kind == "hb_id":
            p.send("0", [("112", arg)], spec={"plan": "hb_id"})
        elif kind == "app":
            self.app_id += 1
            p.send("D", [("11", f"P-{self.app_id}"), ("55", "ES"), ("54", "1"), ("38", "1"), ("44", "1")], spec={"plan": "app"})
        elif kind == "testreq":
            p.send("1", [("112", arg)], spec={"plan": "testreq", "id": arg})
        elif kind == "noise":
            if arg == "badsum":
                fr = refframer.build("0", [], sender=p.comp_id, target=p.eut_comp_id, seq=p.next_out, cks="000")
                if fr.endswith(b"10=000\x01") and refframer.check_frame(fr) is None:
                    fr = refframer.build("0", [], sender=p.comp_id, target=p.eut_comp_id, seq=p.next_out, cks="001")
                p.send_raw(fr, {"t": "noise"})
            else:
                p.send_raw(b"\x00", {"t": "noise"})
            self.fault("noise_bytes_without_a_message")
        elif kind == "gap":
            self.app_id += 1
            p.auto["resend"] = False  # (it never fills the gap: it is dead from now on)
            p.send("D", [("11", f"G-{self.app_id}"), ("55", "ES"), ("54", "1"), ("38", "1"), ("44", "1")],
                   seq=p.next_out + int(arg), spec={"plan": "gap"})
        elif kind == "peer_rr":
            nxt = self.live().next_num_out
            b, e = {"beyond": (nxt + 5, 0), "zero": (0, 0), "inverted": (max(2, nxt - 1), 1), "all": (1, 0)}[arg]
            p.send("2", [("7", b), ("16", e)], spec={"plan": "peer_rr"})
        elif kind == "app_testreq":
            self.spawn(self.app_testreq("plan"), "app-testreq")
        elif kind == "app_send":
            self.spawn(self.app_send(), "app-send")

    async def app_send(self):
        from asyncfix import FIXMessage

        self.app_id += 1
        try:
            await self.eut.send_msg(FIXMessage("D", {11: f"L-{self.app_id}", 55: "ES", 54: "1", 38: 1, 44: "1.0"}))
            self.probe("local_app_send_ok")
        except Exception as e:
            self.probe("local_app_send_refused_" + type(e).__name__)

    async def app_testreq(self, why):
        try:
            await self.eut.send_test_req()
            self.probe("app_send_test_req_accepted")
        except Exception as e:
            self.probe("app_send_test_req_refused_" + type(e).__name__)

    def on_peer_frame(self, d, fr):
        """The peer received a frame from the EUT."""
        now = self.loop.time()
        t = d.get("35")
        self.eut_tx.append((now, t, d.get("112"), d.get("34")))
        if t == "1":
            self.n_eut_testreq += 1
            ans = self.cfg["answer"]
            if ans["mode"] == "never":
                return
            if self.cfg["answer_first_only"] and self.n_eut_testreq > 1:
                return
            self.loop.call_later(ans["delay"], self.peer_answer, d.get("112"), ans["mode"])

    def peer_answer(self, reqid, mode):
        p = self.peer
        if not p.connected or self.phase != FAULT:
            return
        self.peer_answers += 1
        if mode == "ok":
            p.send("0", [("112", reqid)], spec={"plan": "answer"})
        elif mode == "ok_gap":
            p.send("0", [("112", reqid)], seq=p.next_out + 1, spec={"plan": "answer_gap"})
        elif mode == "wrong":
            self.wrong_sent_at.append(self.loop.time())
            wrong = str(int(reqid or 0) + 1000013)  # (far from every id of the run: ids are clock seconds, +13 once equalled the next request)
            if self.cfg.get("wrong_dup"):
                # the wrong echo carries TestReqID twice (both wrong): still a wrong echo
                p.send("0", [("112", wrong), ("112", str(int(reqid or 0) + 1000014))], spec={"plan": "answer_wrong"})
            else:
                p.send("0", [("112", wrong)], spec={"plan": "answer_wrong"})
        elif mode == "noid":
            p.send("0", [], spec={"plan": "answer_noid"})

    def on_decoded(self, ev, msg, consumed, buf, raw):
        if msg is None:
            return
        d = refframer.fdict(raw)
        self.arrivals.append((self.loop.time(), d.get("35"), d.get("112")))

    # ---------------------------------------------------------------- oracle
    def judge(self):
        cfg = self.cfg
        I = cfg["hb"]
        law = cfg["law"]
        if self.t0 is None:
            raise Violation("no-logon", f"C12/session-never-active/role={self.eut_role}",
                            "clean Logon exchange did not make the endpoint ACTIVE")
        t0 = self.t0
        # only the judged session (after an optional prelude session the peer dropped) is looked at
        all_arrivals = [a for a in self.arrivals if a[0] >= t0 - 1e-9]
        all_tx = [x for x in self.eut_tx if x[0] >= t0 - 1e-9]
        T = self.t_fault_end if self.t_fault_end is not None else self.loop.time()
        first_disc = self.disconnects[0][0] if self.disconnects else None
        obs_end = first_disc if first_disc is not None else T
        arr = [a for a in all_arrivals if a[0] >= t0 - 1e-9 and a[0] <= obs_end + 1e-9]
        arr_t = sorted({t0} | {a[0] for a in arr})
        treq = [(t, rid) for (t, typ, rid, seq) in all_tx if typ == "1" and t <= obs_end + 1e-9]
        ctx = f"law={law}/hb={'1' if I == 1 else ('small' if I <= 5 else 'large')}"

        def rel(t):
            return round(t - t0, 3)

        # answers: when was each TestRequest answered with its own id
        answered = {}
        for (t, rid) in treq:
            for (ta, typ, aid) in arr:
                if typ == "0" and aid is not None and aid == rid and ta >= t - 1e-9:
                    answered[(t, rid)] = ta
                    break

        def outstanding_at(x):
            for (t, rid) in treq:
                if t <= x + 1e-9 and answered.get((t, rid), float("inf")) > x + 1e-9:
                    return True
            return False

        # O5: at most one TestRequest outstanding at a time
        for i in range(1, len(treq)):
            pt, prid = treq[i - 1]
            ct, crid = treq[i]
            if answered.get((pt, prid), float("inf")) > ct + 1e-9:
                raise Violation("two-outstanding", f"C12/second-testrequest-while-one-outstanding/{ctx}",
                                f"TestRequest {crid} sent at +{rel(ct)}s while TestRequest {prid} (sent +{rel(pt)}s) was unanswered")
        # O1: silence of I+2 s => a TestRequest within I+2 s of the last inbound message
        bounds = arr_t + [obs_end]
        for i in range(len(arr_t)):
            a, nxt = bounds[i], bounds[i + 1]
            if nxt - a >= I + 2 + 1e-9:
                if outstanding_at(a):
                    continue
                st_a = next((st for (t, st) in reversed(self.state_log) if t <= a + 1e-6), None)
                if st_a is not None and st_a != ACTIVE:
                    # "on an active session ... sends a TestRequest": while a resend is awaited the library probes
                    # nothing (the dead-peer deadline O2 still applies)
                    self.probe("silence_while_not_ACTIVE_no_testrequest_demanded")
                    continue
                if not any(a - 1e-9 <= t <= a + I + 2 + 1e-9 for (t, _) in treq):
                    raise Violation("no-testrequest", f"C12/no-testrequest-after-silence/{ctx}",
                                    f"nothing received from +{rel(a)}s to +{rel(nxt)}s (interval {I}s) and no TestRequest by +{rel(a + I + 2)}s")
                self.probe("silence_answered_by_testrequest")
        # O2: dead peer => disconnected within 3 intervals (+2 s)
        last = arr_t[-1]
        # (the disconnect is reported when the transport has closed; an injected slow close adds its delay)
        slack = cfg.get("slow_close_s", 0.0) if cfg.get("p_slow_close") else 0.0
        if T - last >= 3 * I + 2 + slack + 1e-9:
            if first_disc is None or first_disc > last + 3 * I + 2 + slack + 1e-9:
                when = "never" if first_disc is None else f"+{rel(first_disc)}s"
                raise Violation("no-disconnect", f"C12/dead-peer-not-disconnected/{ctx}",
                                f"nothing received after +{rel(last)}s (interval {I}s), observed until +{rel(T)}s; disconnected: {when}")
            self.probe("dead_peer_disconnected")
        # O6: wrong TestReqID while one is outstanding => Logout, then disconnect
        wrong = [(ta, aid) for (ta, typ, aid) in all_arrivals if typ == "0" and aid is not None
                 and t0 <= ta and (first_disc is None or ta <= first_disc + 1e-9)]
        for (ta, aid) in wrong:
            out = [rid for (t, rid) in treq if t <= ta + 1e-9 and answered.get((t, rid), float("inf")) >= ta - 1e-9]
            if not out or aid in out:
                continue
            logout = [t for (t, typ, rid, seq) in all_tx if typ == "5" and ta - 1e-9 <= t <= ta + 1.0]
            slack6 = cfg.get("slow_close_s", 0.0) if cfg.get("p_slow_close") else 0.0
            if not logout or first_disc is None or first_disc > ta + 1.0 + slack6:
                raise Violation("wrong-id-tolerated", f"C12/wrong-testreqid-not-ending-session/{ctx}",
                                f"Heartbeat with TestReqID {aid} at +{rel(ta)}s while {out} was outstanding: "
                                f"logout={'yes' if logout else 'no'}, disconnected={'no' if first_disc is None else '+%ss' % rel(first_disc)}")
            self.probe("wrong_testreqid_ended_session")
            break
        # O3: a live peer is never disconnected by the watchdog
        wrong_any = any(aid is not None and not any(aid == rid for (_, rid) in treq) for (ta, typ, aid) in arr if typ == "0") \
            and bool(treq)
        if first_disc is not None and not wrong_any:
            full = sorted({t0} | {a[0] for a in all_arrivals if t0 <= a[0] <= first_disc})
            gaps = [full[i + 1] - full[i] for i in range(len(full) - 1)] + [first_disc - full[-1]]
            gaps_ok = max(gaps) <= I - 2 + 1e-9
            all_treq = [(t, rid) for (t, typ, rid, seq) in all_tx if typ == "1" and t <= first_disc]
            # a TestRequest still unanswered at the disconnect is not held against the peer when its (planned,
            # correct) answer was not due yet and was due inside the band: the endpoint hung up on a live peer
            ans = cfg["answer"]
            d_plan = ans["delay"] if ans["mode"] in ("ok", "ok_gap") and not cfg["answer_first_only"] else None

            def in_time(t, rid):
                got = answered.get((t, rid))
                if got is not None:
                    return got - t <= 2 * I - 2 + 1e-9
                return d_plan is not None and d_plan <= 2 * I - 2 + 1e-9 and first_disc < t + d_plan - 1e-9

            every_answered = all(in_time(t, rid) for (t, rid) in all_treq)
            answers_ok = bool(all_treq) and every_answered
            # a TestRequest the application itself asked for (public send_test_req) and that the peer
            # ignores entitles the endpoint to drop the session even though other traffic flows: the
            # "keeps sending valid traffic" band is applied only when no TestRequest went unanswered
            gaps_ok = gaps_ok and every_answered
            if gaps_ok or answers_ok:
                why = "traffic gaps <= interval-2s" if gaps_ok else "every TestRequest answered within 2*interval-2s"
                raise Violation("live-peer-disconnected", f"C12/live-peer-disconnected/{ctx}",
                                f"disconnected at +{rel(first_disc)}s (interval {I}s) although {why}; "
                                f"largest gap {max(gaps):.2f}s")
        if first_disc is None:
            self.probe("session_survived")
        # O4: every inbound TestRequest answered with a Heartbeat carrying the same id
        # (each answer serves one request: a peer may well re-use an id, e.g. a constant "TEST")
        used = set()
        for (ta, typ, aid) in arr:
            if typ == "1" and ta < obs_end - 1e-9:
                hit = next((i for i, (t2, typ2, rid2, _) in enumerate(all_tx)
                            if i not in used and t2 >= ta - 1e-9 and typ2 == "0" and rid2 == aid), None)
                if hit is None:
                    raise Violation("testrequest-unanswered", f"C12/inbound-testrequest-unanswered/{ctx}",
                                    f"TestRequest {aid} received at +{rel(ta)}s got no Heartbeat (of its own) with that TestReqID")
                used.add(hit)
                self.probe("inbound_testrequest_answered")

    def abstract_state(self):
        if self.t0 is None:
            return (int(self.eut.connection_state), -1, 0, 0)
        I = self.cfg["hb"]
        now = self.loop.time()
        last = self.arrivals[-1][0] if self.arrivals else self.t0
        return (int(self.eut.connection_state), min(int(4 * (now - last) / I), 16), min(self.n_eut_testreq, 4),
                min(self.peer_answers, 3))

    def nontrivial_key(self):
        return (self.cfg["law"], self.cfg["hb"])

    def sample(self):
        t0 = self.t0 or 0
        return dict(
            config={k: self.cfg[k] for k in ("eut_role", "hb", "law", "answer", "horizon", "start_offset")},
            plan=self.cfg["plan"][:12],
            arrivals=[(round(t - t0, 2), typ, rid) for (t, typ, rid) in self.arrivals[:20]],
            eut_sent=[(round(t - t0, 2), typ, rid) for (t, typ, rid, _) in self.eut_tx[:20]],
            disconnects=[(round(t - t0, 2), s) for (t, s) in self.disconnects],
        )
