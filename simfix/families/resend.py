"""C06 family: ResendRequest answered completely, in order, without side effects.

The EUT's outbound journal is pre-populated through the public Journaler API
with an arbitrary shape (application / session / declined / hole / residue of an
earlier resend), extended by live sends, then an arbitrary peer requests ranges.
"""
import random

from asyncfix import FIXMessage, FTag
from asyncfix.connection import ConnectionState
from asyncfix.message import MessageDirection

from .. import refframer
from ..core import EPOCH, HarnessError, Violation
from .peer import PeerSim, fix_time

SESSION_TYPES = refframer.SESSION_TYPES
SLOT_KINDS = ["app", "app", "app", "app_pdN", "declined", "sess0", "sess1", "sessA", "sess2", "sess4", "sess5", "hole", "res_pd", "res_gf"]
BIG = 2**62
APP_TYPES_RICH = ["D", "8", "AE", "AS", "j", "U1", "AP", "0X", "5a", "BE", "n"]
U8_TEXTS = ["Z\u00fcrich", "\u20ac 5", "\u00e9\u00e8\u00ff", "\u4e2d\u6587", "na\u00efve \U0001f600", "\u00a0"]


def make_config(seed, tier="quick"):
    r = random.Random(seed ^ 0xC06)
    thorough = tier == "thorough"
    K = r.randint(0, 25 if not thorough else 40)
    kinds = r.sample(SLOT_KINDS, r.randint(2, len(SLOT_KINDS)))
    if r.random() < 0.5:
        kinds = [k for k in kinds if not k.startswith("res_")] or ["app"]
    slots = [r.choice(kinds) for _ in range(K)]
    # separate stream (keeps every other knob of a seed as it was): application messages whose Text is
    # not ASCII - a retransmission has to carry the very same bytes
    r8 = random.Random(seed ^ 0xC06A8)
    if r8.random() < 0.35:
        slots = [("app_u8" if k == "app" and r8.random() < 0.6 else k) for k in slots]
    u8_live = r8.random() < 0.3
    rich_slots = r8.random() < 0.3
    user_groups = r8.random() < 0.15
    p_hook_raise = r8.choice([0.0, 0.0, 0.0, 0.0, 0.2])
    return dict(
        u8_live=u8_live,
        rich_slots=rich_slots,
        user_groups=user_groups,
        p_hook_raise=p_hook_raise,
        seed=seed,
        eut_role=r.choice(["acceptor", "initiator"]),
        hb=1000,
        eut_in=r.choice([1, 1, 4]),
        eut_out=K + 1,
        slots=slots,
        n_req=r.randint(1, 4 if not thorough else 8),
        n_live=r.randint(0, 6),
        p_repeat=r.choice([0.0, 0.5, 0.8]),
        p_hook=r.choice([0.0, 0.0, 0.3]),
        p_pause=r.choice([0.0, 0.0, 0.2]),
        use_gap=r.random() < 0.3,
        concurrent_sends=r.random() < 0.4,
        bounded=r.random() < 0.7,
        invalid=r.random() < 0.5,
        p_act=0.9,
        p_more=r.choice([0.0, 0.3]),
        p_delay=0.0,
        chunk_law="whole",
        max_actions=120,
        settle_s=5.0,
        settle_extra_s=1.0,
        # fault placement (separate stream, 1 run in 6): the last request of the run arrives while the application's
        # disconnect() (Logout under back-pressure) is suspended in drain() - the session is still up, the request
        # is read and has to be answered like any other; the reply leaves with the Logout when the transport resumes
        closing_request=random.Random(seed ^ 0xC06C1).random() < 1 / 6,
    )


class ResendSim(PeerSim):
    family = "resend"

    # ---------------------------------------------------------------- setup
    def setup(self):
        self._prepop = True
        super().setup()

    def make_journal(self):
        j = super().make_journal()
        return j

    def setup_family(self):
        cfg = self.cfg
        self.peer.auto.update(testreq=False, resend=False, logout=False)
        self.peer.next_out = cfg["eut_in"]
        self.eut.replay_filter = lambda m: not str(m.get(FTag.Text, "")).startswith("NOREPLAY")
        self.replay_hook_failed = set()
        self.n_req = 0
        self.rr_busy = False
        self.n_live = 0
        self.gap_done = False
        self.closing = False
        self.fed_ptr = 0
        self.cur = None
        self.req_log = []
        self.last_req = None
        self.live_id = 0
        self.first_tx = {}  # seq -> (sending time, fields) of first transmission (pre-populated or live)
        self.prepopulate()
        if self.eut_role == "acceptor":
            self.logon_pending = True

    def prepopulate(self):
        """Fill the outbound journal through the public API only."""
        cfg = self.cfg
        j = self.journal
        sess = j.live
        sender, target = sess.sender_comp_id, sess.target_comp_id
        K = len(cfg["slots"])
        if cfg["eut_in"] != 1 or K:
            j.set_seq_num(sess, next_num_out=1, next_num_in=cfg["eut_in"])
        for i, kind in enumerate(cfg["slots"]):
            n = i + 1
            st = fix_time(EPOCH - 5000 + n)
            if kind == "hole":
                continue
            if kind in ("app", "declined", "app_pdN", "app_u8"):
                body = [("11", f"J-{n}"), ("55", "ES"), ("54", "1"), ("38", n), ("44", "2.5")]
                if kind == "declined":
                    body.append(("58", f"NOREPLAY {n}"))
                elif kind == "app_u8":
                    body.append(("58", (U8_TEXTS[n % len(U8_TEXTS)] + f" {n}").encode("utf-8")))
                else:
                    body.append(("58", f"text {n} a=b"))
                if cfg.get("user_groups") and n % 2 == 0:
                    # a user-defined repeating group (tags the protocol table does not list as a group), as an
                    # application builds it with set_group(): sent and journaled like any other message
                    body += [("20228", "2"), ("20229", "a"), ("20230", f"b{n}"), ("20229", "c"), ("20230", "d")]
                if cfg.get("rich_slots") and n % 3 == 0:
                    # repeating groups (flat and nested): a retransmission carries every entry, in order
                    body += [("453", "2"), ("448", f"TRADER-{n}"), ("447", "D"), ("452", "12"),
                             ("802", "1"), ("523", "desk"), ("803", "1"),
                             ("448", "DESK-A"), ("447", "D"), ("452", "3")]
                # app_pdN: an original transmission that spells out PossDupFlag=N
                extra = (("43", "N"),) if kind == "app_pdN" else ()
                mtype = "D" if n % 2 else "8"
                if cfg.get("rich_slots"):
                    # application types of two characters (some begin with the letter of a session type)
                    mtype = APP_TYPES_RICH[n % len(APP_TYPES_RICH)]
                fr = refframer.build(mtype, body, sender, target, n, st, header_extra=extra)
            elif kind == "res_pd":
                # what an earlier (destructive) resend left behind: a PossDup copy
                body = [("11", f"J-{n}"), ("55", "ES"), ("54", "1"), ("38", n), ("44", "2.5")]
                fr = refframer.build("D", body, sender, target, n, st, possdup=True,
                                     orig_sending_time=fix_time(EPOCH - 9000 + n))
            elif kind == "res_gf":
                fr = refframer.build("4", [("123", "Y"), ("36", n + 1)], sender, target, n, st)
            else:
                t = kind[4:]
                body = {"0": [], "1": [("112", f"X{n}")], "A": [("98", "0"), ("108", "30")],
                        "2": [("7", "1"), ("16", "0")], "3": [("45", "1"), ("58", "rejected")], "4": [("36", n + 1)], "5": []}[t]
                fr = refframer.build(t, body, sender, target, n, st)
            j.persist_msg(fr, sess, MessageDirection.OUTBOUND)
        if K:
            j.set_seq_num(sess, next_num_out=K + 1)

    def setup_counters(self):
        pass

    def peer_event(self, kind):
        if kind == "connected" and self.eut_role == "acceptor" and getattr(self, "logon_pending", False):
            self.logon_pending = False
            self.peer.send("A", [("98", "0"), ("108", self.cfg["hb"])], spec={"logon": 1})

    def hook_p(self, label, hname):
        return self.cfg["p_hook"] if hname in ("should_replay", "on_state_change") else 0.0

    def hook_raise_p(self, label, hname):
        # fault injection: the application's should_replay() fails for a message (neither agrees nor declines):
        # the library logs handler failures and carries on - the reply is still a complete chain (the number is
        # covered one way or the other) and the state is restored
        return self.cfg.get("p_hook_raise", 0.0) if hname == "should_replay" else 0.0

    # --------------------------------------------------------------- actions
    def session_up(self):
        return self.eut.connection_state in (
            ConnectionState.ACTIVE, ConnectionState.RESENDREQ_AWAITING,
        )

    def reply_parked(self):
        return bool(self.pending_hooks) or any(
            t is not None and t.paused and t.label == "E" for c in self.net.conns for t in c.tr)

    def quiet(self):
        """No reply in progress: request windows must not overlap other stimuli."""
        if any(t is not None and t.paused for c in self.net.conns for t in c.tr):
            return False
        return self.at_rest() and not self.pending_hooks

    def enabled_actions(self):
        out = self.net_enabled()
        if self.closing:
            # back-pressure is kept up until the fault phase ends: the application's disconnect() stays in drain(),
            # the session stays up, the request is read and answered in full (the reply leaves at settle)
            out = [(a, w) for (a, w) in out if a[0] != "resume"]
        cfg = self.cfg
        if not self.peer.connected:
            return out
        if not self.session_up() and not (
                self.rr_busy and self.eut.connection_state == ConnectionState.RESENDREQ_HANDLING):
            return out
        if self.rr_busy:
            # a request is being served: the only stimulus that may overlap its window is an application
            # send of the endpoint itself, while the reply is parked in a hook or in drain
            if cfg.get("concurrent_sends") and self.n_live < cfg["n_live"] and self.reply_parked():
                out.append((("live",), 2.0))
            return out
        if self.n_req < cfg["n_req"] and self.quiet():
            out.append((("rr",), 2.0))
            if cfg.get("closing_request") and not self.closing and self.n_req == cfg["n_req"] - 1:
                out.append((("closing_rr",), 4.0))
        if self.n_live < cfg["n_live"] and self.quiet():
            out.append((("live",), 1.0))
        if cfg["use_gap"] and not self.gap_done and self.quiet():
            out.append((("gap",), 0.5))
        return out

    def fault_phase_over(self):
        if super().fault_phase_over():
            return True
        if self.n_req >= self.cfg["n_req"]:
            return self.at_rest()
        return self.n_boundaries > 300 and not self.session_up()

    def concretize(self, proto):
        r = self.rng
        cfg = self.cfg
        if proto[0] == "rr":
            L = self.live().next_num_out - 1
            if self.last_req is not None and r.random() < cfg["p_repeat"]:
                b, e = self.last_req
            else:
                mid = max(1, L // 2)
                bs = [1, 1, mid, max(1, L), max(1, L - 1)]
                if cfg["invalid"]:
                    bs += [0, -1, L + 1, L + 5]
                b = r.choice(bs)
                es = [0, 0, 0]
                if cfg["bounded"]:
                    es += [b, b + 1, mid, max(1, L - 1), L]
                if cfg["invalid"]:
                    es += [L + 1, L + 9, max(0, b - 1), -1]
                e = r.choice(es)
                if cfg["invalid"] and r.random() < 0.08:
                    if r.random() < 0.5:
                        b = r.choice(["abc", "", "1x"])
                    else:
                        e = r.choice(["abc", "", "0x"])
            return ["rr", b, e]
        if proto[0] == "closing_rr":
            return ["closing_rr", 1, 0]
        if proto[0] == "live":
            if self.rr_busy:
                return ["live", r.choice(["app", "app", "declined"])]
            return ["live", r.choice(["app", "app", "declined", "testreq"])]
        if proto[0] == "gap":
            return ["gap", r.randint(2, 5)]
        return super().concretize(proto)

    def can_fire_family(self, a):
        if not self.peer.connected:
            return False
        if self.rr_busy:
            return (a[0] == "live" and a[1] in ("app", "declined") and bool(self.cfg.get("concurrent_sends"))
                    and self.n_live < self.cfg["n_live"] and self.reply_parked())
        if a[0] == "rr":
            return self.n_req < self.cfg["n_req"]
        if a[0] == "closing_rr":
            return self.n_req < self.cfg["n_req"] and not self.closing and self.quiet() and self.session_up()
        if a[0] == "live":
            return self.n_live < self.cfg["n_live"] and self.quiet()
        if a[0] == "gap":
            return not self.gap_done
        return False

    async def _app_logout(self):
        try:
            await self.eut.disconnect(ConnectionState.DISCONNECTED_WCONN_TODAY, logout_message="end of day")
            self.rec("app_logout_done")
        except Exception as e:
            self.rec("app_logout_raised", type(e).__name__)

    def fire_family(self, a):
        if a[0] == "closing_rr":
            self.closing = True
            self.fault("resend_request_while_a_disconnect_is_in_progress")
            for conn in self.net.conns:
                for tr in conn.tr:
                    if tr is not None and tr.label == "E" and not tr.paused and not tr._closing:
                        tr.paused = True
                        self.rec("pause", tr.label, conn.cid)
                        tr.protocol.pause_writing()
            self.spawn(self._app_logout(), "app-logout")
            self.n_req = self.cfg["n_req"]
            self.rr_busy = True
            self.last_req = (a[1], a[2])
            self.peer.send("2", [("7", a[1]), ("16", a[2])], spec={"rr": (a[1], a[2])})
            return
        if a[0] == "rr":
            self.n_req += 1
            self.rr_busy = True
            self.last_req = (a[1], a[2])
            self.peer.send("2", [("7", a[1]), ("16", a[2])], spec={"rr": (a[1], a[2])})
        elif a[0] == "live":
            self.n_live += 1
            if a[1] == "testreq":
                self.peer.send("1", [("112", f"L{self.n_live}")], spec={"live": 1})
            else:
                self.live_id += 1
                m = FIXMessage("D", {11: f"L-{self.live_id}", 55: "NQ", 54: "2", 38: self.live_id, 44: "9.75"})
                m[58] = ("NOREPLAY live" if a[1] == "declined" else
                         "l\u00efve t\u00e9xt \u20ac" if self.cfg.get("u8_live") else "live text") + f" {self.live_id}"
                self.spawn(self._live_send(m), f"live-{self.live_id}")
        elif a[0] == "gap":
            self.gap_done = True
            seq = self.peer.next_out + a[1]
            self.peer.send("D", [("11", "G-1"), ("55", "ES"), ("54", "1"), ("38", "1"), ("44", "1")],
                           seq=seq, spec={"gap": 1})
        else:
            super().fire_family(a)

    async def _live_send(self, m):
        try:
            await self.eut.send_msg(m)
            self.rec("live_send_ok")
        except Exception as e:
            self.rec("live_send_raised", type(e).__name__)

    # ---------------------------------------------------------------- oracle
    def journal_out(self):
        rows = {}
        for raw in self.journal.recover_messages(self.live(), MessageDirection.OUTBOUND, -BIG, BIG):
            d = refframer.fdict(raw)
            rows[int(d["34"])] = raw
        return rows

    def on_decoded(self, ev, msg, consumed, buf, raw):
        if msg is None or self.violation is not None:
            return
        prev, self.cur = self.cur, None
        sent = self.peer.sent
        if self.fed_ptr >= len(sent) or sent[self.fed_ptr]["frame"] != raw:
            raise HarnessError("EUT decoded a frame out of step with the peer's send log")
        ent = sent[self.fed_ptr]
        self.fed_ptr += 1
        if prev is not None:
            self.close_window(ev, prev)
        if "rr" in ent["spec"]:
            snap = dict(
                ent=ent,
                ev0=ev,
                journal=self.journal_out(),
                live_out=self.live().next_num_out,
                stored_out=self.journal.stored()[1],
                state=self.eut.connection_state,
                closing=self.closing and self.eut.connection_state > ConnectionState.DISCONNECTED_BROKEN_CONN,
            )
            self.cur = snap

    def boundary_check(self):
        # a request's window ends as soon as the endpoint is quiet again
        if self.cur is not None and self.quiet():
            cur, self.cur = self.cur, None
            self.rr_busy = False
            self.close_window(self.evno, cur)

    def judge(self):
        cur, self.cur = self.cur, None
        if cur is not None:
            self.close_window(self.evno, cur)

    def close_window(self, ev_end, snap):
        if self.violation is not None:
            return
        b, e = snap["ent"]["spec"]["rr"]
        J = snap["journal"]
        L0 = snap["live_out"] - 1  # last number sent when the request arrived
        # what the endpoint itself sent before it began to replay (while the RESENDREQ_HANDLING state hook was
        # running) is "already sent" for this request: the range is judged against the last number sent when
        # the replay started
        start_ev = None
        n_state = 0
        if snap["state"] != ConnectionState.ACTIVE:
            start_ev = snap["ev0"]  # no state hook runs before the replay when the endpoint awaits a resend itself
        for h in self.hist[snap["ev0"]:]:
            if start_ev is not None or h[0] > ev_end:
                break
            if h[1] == "state" and h[2] == "E":
                n_state += 1
                if n_state >= 2:  # back from RESENDREQ_HANDLING: the (possibly empty) replay is over
                    start_ev = h[0]
            elif h[1] == "should_replay" or (h[1] == "write" and h[2] == "E" and (
                    b"\x0143=Y\x01" in h[4] or b"\x0135=4\x01" in h[4])):
                start_ev = h[0]
        before = []
        for (ev, cid, d, fr, dropped) in self.eut_writes():
            if snap["ev0"] < ev <= ev_end and (start_ev is None or ev < start_ev) and d.get("35") != "4" \
                    and d.get("43") != "Y" and d.get("34", "").isdigit() and int(d["34"]) > L0:
                before.append(int(d["34"]))
        L = max([L0] + before)
        if before:
            self.probe("new_message_sent_before_the_replay_started")
        numeric = isinstance(b, int) and isinstance(e, int)
        shown = (b, e)
        if not numeric:
            b, e = -1, -1  # a request whose bounds are not numbers is an invalid request
        end = L if (e == 0 or e > L) else e
        valid = numeric and b >= 1 and b <= end
        R = range(b, end + 1) if valid else range(0)
        rkind = ("open" if e == 0 else ("bounded" if e <= L else "beyond")) if valid else "invalid"
        # an application send of the endpoint itself may overlap the window (cfg concurrent_sends): an
        # open-ended reply may then legitimately run on to what has been sent meanwhile
        live_out_now = self.live().next_num_out
        end_hi = end if (valid and e != 0 and e <= L) else max(end, live_out_now - 1)
        state0 = snap["state"].name
        ctx = f"end={rkind if numeric else 'not-a-number'}/state={state0}"
        replies = []
        for (ev, cid, d, fr, dropped) in self.eut_writes():
            if snap["ev0"] < ev <= ev_end:
                replies.append((d, fr))
        self.req_log.append((b, e, L, [(d.get("35"), d.get("34"), d.get("36"), d.get("43")) for d, _ in replies]))

        def bad(clause, text, extra=""):
            raise Violation(clause, f"C06/{clause}/{ctx}{extra}",
                            f"ResendRequest({shown[0]!r},{shown[1]!r}) with last sent {L}: {text}")

        # side effects first (they hold for every request, valid or not)
        live_out = self.live().next_num_out
        stored_out = self.journal.stored()[1]
        chain = [(d, fr) for d, fr in replies if d.get("35") != "2"]
        J_after = self.journal_out()
        new_during = [int(d.get("34")) for d, fr in chain
                      if d.get("35") != "4" and d.get("43") != "Y" and d.get("34", "").isdigit() and int(d.get("34")) > L0]
        if new_during:
            self.probe("new_message_sent_while_a_request_was_being_served", len(new_during))
        # 1. the reply chain
        pos = b
        seen_retx = set()
        for d, fr in chain:
            t = d.get("35")
            n = int(d.get("34", "0"))
            if t != "4" and d.get("43") != "Y" and n > L0:
                continue  # a new message the application sent meanwhile, not part of the reply
            if not valid:
                bad("reply-to-invalid-request", f"invalid range answered with 35={t} 34={n}")
            if t == "4":
                if d.get("123") != "Y":
                    bad("reply-not-gapfill", f"SequenceReset 34={n} without GapFillFlag=Y")
                m = int(d.get("36", "0"))
                if n != pos or m <= n:
                    bad("chain-broken", f"gap fill 34={n} 36={m} where the chain stood at {pos}")
                if m > end_hi + 1:
                    bad("reply-beyond-range", f"gap fill 34={n} 36={m} runs past requested end {end}")
                pos = m
            else:
                if d.get("43") != "Y":
                    if n > L0:
                        # a new message sent concurrently is not part of the reply
                        continue
                    bad("retransmission-without-possdup", f"frame 35={t} 34={n} lacks PossDupFlag=Y")
                if n != pos:
                    bad("chain-broken", f"retransmission 34={n} where the chain stood at {pos}")
                if n > end_hi:
                    bad("reply-beyond-range", f"retransmission 34={n} past requested end {end}")
                if t in SESSION_TYPES:
                    bad("session-message-retransmitted", f"35={t} 34={n} retransmitted")
                orig = J.get(n) or (J_after.get(n) if n > L0 else None)
                if orig is None:
                    bad("retransmitted-unknown", f"34={n} retransmitted but not in the journal")
                od = refframer.fdict(orig)
                want122 = od.get("122") if od.get("43") == "Y" and od.get("122") else od.get("52")
                if d.get("122") != want122:
                    bad("orig-sending-time-wrong", f"34={n}: OrigSendingTime {d.get('122')} != first SendingTime {want122}")
                skip = {"8", "9", "10", "52", "122", "43"}
                fo = [(k, v) for k, v in refframer.fields(orig) if k.decode() not in skip]
                fn = [(k, v) for k, v in refframer.fields(fr) if k.decode() not in skip]
                if fo != fn:
                    bad("retransmission-body-differs", f"34={n}: body differs from the journaled message")
                seen_retx.add(n)
                pos = n + 1
        if valid and not (end + 1 <= pos <= end_hi + 1):
            if snap.get("closing"):
                # under the held back-pressure the reply parks in its own first drain() and is cut off when the
                # application's disconnect() completes at settle - but it was begun: the session was up when the
                # request was read
                if pos == b:
                    bad("request-not-answered-while-disconnect-in-progress",
                        f"no reply at all, although the session was still up (state {snap['state'].name}) when the request was read")
            elif self.eut.connection_state > ConnectionState.DISCONNECTED_BROKEN_CONN:
                bad("reply-incomplete", f"chain covers {b}..{pos - 1}, requested {b}..{end}")
        # 2. completeness: every replayable application message is retransmitted
        for n in R:
            raw = J.get(n)
            if raw is None:
                continue
            d0 = refframer.fdict(raw)
            if d0.get("35") in SESSION_TYPES:
                continue
            if str(d0.get("58", "")).startswith("NOREPLAY"):
                if n in seen_retx:
                    bad("declined-message-retransmitted", f"34={n} retransmitted although should_replay declined")
                continue
            if str(n) in self.replay_hook_failed:
                # should_replay() failed for this number (injected): retransmitted or gap-filled, either is fine,
                # the chain and the state clauses still apply
                self.probe("number_whose_should_replay_failed_" + ("retransmitted" if n in seen_retx else "gap_filled"))
                continue
            if n not in seen_retx and pos > n:
                bad("message-gap-filled", f"journaled application message 34={n} was gap-filled instead of retransmitted")
        # 3. no side effects
        want_out = snap["live_out"] + len(new_during)
        if live_out != want_out:
            bad("next-out-changed", f"next outbound number {snap['live_out']} -> {live_out}"
                + (f" ({len(new_during)} new message(s) were sent meanwhile)" if new_during else ""))
        if stored_out != snap["stored_out"] + len(new_during):
            bad("stored-next-out-changed", f"stored next outbound number {snap['stored_out']} -> {stored_out}")
        J2 = J_after
        for n in set(J) | set(J2):
            if n in R or n in new_during:
                continue
            if J.get(n) != J2.get(n):
                what = "deleted" if n not in J2 else ("added" if n not in J else "rewritten")
                bad("journal-outside-range-changed", f"journal row {n} outside the requested range was {what}",
                    extra=f"/{what}")
        st = self.eut.connection_state
        if st != snap["state"] and not (self.closing and st <= ConnectionState.DISCONNECTED_BROKEN_CONN):
            # (closing request: the application's own disconnect() completes behind the reply)
            bad("state-changed", f"connection_state {snap['state'].name} -> {st.name}")
        if valid:
            self.probe("valid_request_answered")
            if any(d.get("35") == "4" and int(d.get("36", 0)) - int(d.get("34", 0)) > 1 for d, _ in chain):
                self.probe("gap_fill_spanning_more_than_one_number")
        else:
            self.probe("invalid_request_ignored")

    def converged(self):
        return True

    def abstract_state(self):
        lv = self.live()
        return (int(self.eut.connection_state), min(self.n_req, 4), len(self.pending_hooks) > 0,
                min(lv.next_num_out, 30) if lv else 0)

    def sample(self):
        d = super().sample()
        d["slots"] = self.cfg["slots"]
        d["requests(b,e,last,[reply 35,34,36,43])"] = self.req_log[:6]
        return d
