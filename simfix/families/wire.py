"""C02: wire well-formedness oracle layered over the session families.

Every byte string a real endpoint hands to a transport, and every return value
of Codec.encode (converted to bytes the way send_msg does), is re-parsed by the
independent byte-level framer.  The host family's own oracle stays armed as a
*foreign probe*: its violations are counted, never reported as C02's.
"""
import collections
import random

import asyncfix.codec

from .. import refframer
from ..core import Violation
from . import gate, outbound, pair, resend, senders

REAL_LABELS = ("A", "B", "E")


# a send that failed with one of these never got as far as the transport (a send that raised a transport error may
# well have written its frame first)
ENCODER_REFUSALS = ("UnicodeEncodeError", "RepeatingTagError", "TagNotFoundError", "EncodingError", "FIXMessageError",
                    "DuplicatedTagError", "UnmappedRepeatedGrpError", "DuplicateSeqNoError")


class WireMixin:
    def setup(self):
        self.foreign = collections.Counter()
        self.encoded = []  # (evno, str)
        self.encode_raised = 0
        sim = self
        orig = asyncfix.codec.Codec.encode
        self._wire_orig_encode = orig

        def tapped(codec_self, msg, session, *a, **kw):
            try:
                out = orig(codec_self, msg, session, *a, **kw)
            except Exception:
                sim.encode_raised += 1
                raise
            # the byte string the encoder produces = its result in the charset it was asked to frame for
            enc = kw.get("encoding") or (a[1] if len(a) > 1 and isinstance(a[1], str) else "utf-8")
            sim.encoded.append((sim.evno, out, enc))
            return out

        asyncfix.codec.Codec.encode = tapped
        super().setup()

    def teardown(self):
        try:
            super().teardown()
        finally:
            asyncfix.codec.Codec.encode = self._wire_orig_encode

    # the host family's oracle is a foreign probe here
    def step_check(self):
        try:
            super().step_check()
        except Violation as v:
            self.foreign[v.signature.split("/")[0] + "/" + v.clause] += 1

    def boundary_check(self):
        try:
            super().boundary_check()
        except Violation as v:
            self.foreign[v.signature.split("/")[0] + "/" + v.clause] += 1

    def judge(self):
        try:
            super().judge()
        except Violation as v:
            self.foreign[v.signature.split("/")[0] + "/" + v.clause] += 1
        self.judge_wire()

    def judge_wire(self):
        charset = self.cfg.get("charset", "ascii")
        n_frames = 0
        # (1) what the encoder returns
        for (ev, s, enc) in self.encoded:
            b = s.encode(enc)
            why = refframer.check_frame(b)
            if why is not None:
                kind = "ascii" if b.isascii() else "non-ascii"
                raise Violation("encoder-output-malformed", f"C02/encoder-output-malformed/{kind}/{classify(why)}",
                                f"Codec.encode returned a string whose bytes are not a well-formed frame: {why}: {b[:120]!r}")
        # (2) what reaches a transport: per endpoint and connection the written stream is a concatenation of frames
        streams = collections.OrderedDict()
        for label in REAL_LABELS:
            for (ev, cid, data, dropped) in self.writes.get(label, []):
                streams.setdefault((label, cid), bytearray()).extend(data)
        unrep = {e["mid"] for side in getattr(self, "sends", {}) for e in getattr(self, "sends", {}).get(side, [])
                 if isinstance(e, dict) and e.get("unrepresentable")}
        # (outbound host) marks of sends that were refused / raised: nothing of such a message may travel
        failed_marks = {("S-%d" % e["k"]).encode() for e in getattr(self, "send_log", [])
                        if isinstance(e, dict) and "k" in e and (
                            e.get("status") == "refused" or (e.get("status") == "raised" and e.get("exc") in ENCODER_REFUSALS))}
        for (label, cid), data in streams.items():
            frames, err, rest = refframer.split_stream(bytes(data))
            n_frames += len(frames)
            if err is not None or rest:
                what = err or f"{len(rest)} trailing bytes that are not a complete frame: {bytes(rest[:60])!r}"
                kind = "ascii" if bytes(data).isascii() else "non-ascii"
                raise Violation("wire-malformed", f"C02/wire-stream-malformed/{kind}/{classify(what)}",
                                f"bytes written by {label} on connection {cid} are not a concatenation of well-formed frames: {what}")
            for fr in frames:
                d = refframer.fdict(fr)
                if failed_marks and label == "E":
                    vals = {v for (_, v) in refframer.fields(fr)}
                    leaked = sorted(m for m in failed_marks if m in vals)
                    if leaked:
                        raise Violation("unrepresentable-transmitted", "C02/fields-of-a-refused-message-transmitted",
                                        f"{label} transmitted a frame carrying field(s) of message {leaked[0].decode()} "
                                        f"whose send had failed: {fr[:200]!r}")
                if d.get("11") in unrep:
                    raise Violation("unrepresentable-transmitted", "C02/unrepresentable-message-transmitted/altered",
                                    f"{label} transmitted message {d.get('11')} although one of its values (a lone "
                                    f"surrogate) has no byte representation: what went out is not what was sent: {fr[:160]!r}")
                if b"<class '" in fr or b"Error'>" in fr:
                    # a Python object's repr instead of a value: the message had a field without a representable
                    # value (e.g. the marker decode() leaves for a repeated tag) and had to be refused
                    raise Violation("unrepresentable-transmitted", "C02/unrepresentable-message-transmitted",
                                    f"{label} transmitted a frame carrying an object repr instead of a value: {fr[:160]!r}")
                self.probe("wire_frames_type_" + str(d.get("35")))
                if d.get("43") == "Y":
                    self.probe("wire_frames_retransmission")
                if d.get("35") == "4":
                    self.probe("wire_frames_gap_fill")
                if not fr.isascii():
                    self.probe("wire_frames_non_ascii")
        self.stat("wire_frames_checked", n_frames)
        self.stat("encoder_outputs_checked", len(self.encoded))
        if n_frames and len(self.encoded) and any(len(w[2]) and not w[3] for lab in REAL_LABELS for w in self.writes.get(lab, [])):
            writes = sum(1 for lab in REAL_LABELS for w in self.writes.get(lab, []) if w[2])
            if writes != n_frames:
                self.probe("write_is_not_exactly_one_frame")

    def result(self):
        v = self.violation
        if v is not None and not v.signature.startswith("C02/"):
            self.foreign[v.signature.split("/")[0] + "/" + v.clause] += 1
            self.violation = None
        res = super().result()
        res["foreign"] = dict(self.foreign)
        return res


def classify(why):
    w = str(why)
    for key, name in (("BodyLength", "bodylength"), ("CheckSum", "checksum"), ("no frame start", "no-frame-start"),
                      ("trailing", "incomplete-frame"), ("MsgType", "field-order")):
        if key in w:
            return name
    return "other"


HOSTS = {
    "pair": (pair.PairSim, pair.make_config),
    "senders": (senders.SendersSim, senders.make_config),
    "outbound": (outbound.OutboundSim, outbound.make_config),
    "resend": (resend.ResendSim, resend.make_config),
    "gate": (gate.GateSim, gate.make_config),
}
_CLASSES = {}


def sim_class(host):
    if host not in _CLASSES:
        _CLASSES[host] = type("Wire" + host.capitalize(), (WireMixin, HOSTS[host][0]), {"family": "wire+" + host})
    return _CLASSES[host]


def make_config(seed, tier="quick"):
    r = random.Random(seed ^ 0xC02)
    host = r.choice(["pair", "pair", "pair", "pair", "senders", "outbound", "resend", "gate"])
    cfg = HOSTS[host][1](seed, tier)
    cfg["host"] = host
    if host == "gate":
        # the peer's TestReqID is echoed in a Heartbeat of the endpoint: a value outside ASCII has to come back in a
        # well-formed frame too (BodyLength / CheckSum over the bytes actually written)
        cfg["u8_testreq"] = r.random() < 0.5
        if cfg["u8_testreq"] and "1" not in cfg["frame_types"]:
            cfg["frame_types"] = list(cfg["frame_types"]) + ["1"]
    if host == "pair":
        cfg["charset"] = r.choice(["ascii", "latin1", "bmp", "astral", "latin1", "bmp", "surrogate", "nfd"])  # values containing SOH are outside the quantified domain (C01: "without SOH")
        cfg["payload_law"] = r.choice(["small", "small", "medium", "big", "huge"])
        if cfg["payload_law"] == "huge":
            # frames above 64 KiB written while other tasks of the same connection send: back-pressure on,
            # short heartbeat interval, few sends (the frames are expensive)
            cfg["p_pause"] = r.choice([0.3, 0.6, 0.9])
            cfg["hb"] = r.choice([1, 2, 3])
            cfg["n_sends_a"] = min(cfg["n_sends_a"], 4)
            cfg["n_sends_b"] = min(cfg["n_sends_b"], 4)
            cfg["max_handles"] = 600_000
        # session CompIDs outside ASCII: the standard header is part of what BodyLength / CheckSum count (round 13).
        # A generator of its own, so that every other draw of a seed stays what it was.
        r2 = random.Random(seed ^ 0xC1D5)
        if r2.random() < 0.35:
            cfg["comp_ids"] = r2.choice([
                ["BANK-Z\u00dcRICH", "B\u00d6RSE"], ["\u0411\u0420\u041e\u041a\u0415\u0420", "SRV"],
                ["CLI", "\u53d6\u5f15\u6240"], ["C\U0001d538", "S\u00e9rv\u00e9r"],
            ])
    return cfg


def make_sim(cfg, trace=None):
    return sim_class(cfg["host"])(cfg, trace)
