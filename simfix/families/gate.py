"""C11 family: nothing passes to or from the application outside an established session.

A real endpoint (either role) is brought by a seeded prefix to a state
(connected before any Logon, Logon sent and unanswered, ACTIVE, awaiting a
resend), then receives stimuli one at a time -- peer frames of every type class
with every integrity defect, local sends of every type, application-initiated
disconnects, peer-side closes -- while drain back-pressure and hook suspensions
let the heartbeat task, the reader task and application tasks overlap inside
disconnect().  Oracle = global gate invariants evaluated at every callback /
write + a per-stimulus judgement when the stimulus ran alone.
"""
import random

from asyncfix import FIXMessage, FMsg, FTag
from asyncfix.connection import ConnectionState
from asyncfix.errors import FIXConnectionError
from asyncfix.message import MessageDirection

from .. import refframer
from ..core import Violation
from .peer import PeerSim

DISC = ConnectionState.DISCONNECTED_BROKEN_CONN
FRAME_TYPES = ["A", "0", "1", "2", "4gf", "4rs", "5", "D", "8", "Abare"]
DEFECTS = ["none", "none", "begin", "sender_wrong", "target_wrong", "swapped", "sender_missing", "target_missing",
           "seq_missing", "seq_low", "seq_high", "seq_alpha"]
SEND_TYPES = ["D", "0", "A", "5", "1", "2", "4"]
PREFIXES = ["connected", "logon_sent", "active", "active", "awaiting"]


def make_config(seed, tier="quick"):
    r = random.Random(seed ^ 0xC11)
    thorough = tier == "thorough"
    role = r.choice(["acceptor", "initiator"])
    prefix = r.choice(PREFIXES)
    if role == "acceptor" and prefix == "logon_sent":
        prefix = "connected"
    rs = random.Random(seed ^ 0xC115F)
    speak_first = role == "initiator" and rs.random() < 0.3
    cfg = dict(
        seed=seed,
        eut_role=role,
        prefix=prefix,
        hb=r.choice([1, 2, 30, 1000]),
        eut_in=r.choice([1, 1, 5, 20]),
        eut_out=r.choice([1, 1, 4]),
        n_stim=r.randint(1, 8 if not thorough else 20),
        stim_classes=r.sample(["frame", "frame", "frame", "send", "app_disconnect", "peer_close", "frame_burst",
                               "peer_reconnect"], r.randint(1, 8)),
        frame_types=r.sample(FRAME_TYPES, r.randint(1, len(FRAME_TYPES))),
        defects=r.sample(DEFECTS, r.randint(1, len(DEFECTS))),
        p_overlap=r.choice([0.0, 0.0, 0.3, 1.0]),
        p_pause=r.choice([0.0, 0.0, 0.3, 0.6]),
        p_hook=r.choice([0.0, 0.0, 0.3]),
        hook_names=r.sample(["on_state_change", "on_message", "on_logon", "on_logout", "on_disconnect", "on_connect"],
                            r.randint(1, 4)) + (["should_replay"] if random.Random(seed ^ 0xC1150).random() < 0.5 else []),
        p_slow_close=r.choice([0.0, 0.0, 0.5]),
        slow_close_s=r.choice([0.3, 1.3]),
        mid_hook_stimuli=r.random() < 0.3,  # local sends / disconnects while a hook of the Logon handling is parked
        p_act=0.9,
        p_more=r.choice([0.0, 0.3]),
        p_delay=r.choice([0.0, 0.0, 0.1]),
        chunk_law="whole",
        max_actions=80 if not thorough else 200,
        settle_s=6.0,
        settle_extra_s=1.6,
        max_boundaries=6000,
        start_offset=round(r.random(), 3),
    )
    # stalled application callbacks (1 run in 4 of those with a short heartbeat): a hook that comes back only after
    # the watchdog had time to act - the reader task is held meanwhile, other tasks disconnect / reconnect under it
    rst = random.Random(seed ^ 0xC1157)
    if rst.random() < 0.25 and cfg["hb"] < 30:
        cfg.update(p_hook=0.3, p_hook_stall=0.3, hook_stall_s=rst.choice([1.5, 4.0, 8.0]) * cfg["hb"])
    cfg["prefill_out"] = random.Random(seed ^ 0xC1151).random() < 0.5  # (matters when eut_out > 1)
    cfg["speak_first"] = speak_first
    if speak_first:
        # scenario family "the acceptor speaks first / Logon attempts that come to nothing": initiator that sends its
        # own Logon as a stimulus (hooks of the Logon handling parked), a peer that may answer before it was asked,
        # close without answering, and quick reconnects
        cfg.update(prefix="connected", mid_hook_stimuli=True, hb=rs.choice([1, 2]), n_stim=max(cfg["n_stim"], 5),
                   stim_classes=["send", "send", "peer_close", "frame", "app_disconnect"],
                   frame_types=["A", "A", "D", "5"], defects=["none", "none", "seq_high"], p_overlap=0.0)
    # scenario family "a resend reply in progress when the session ends" (1 run in 10): an established session over a
    # journal of earlier application messages, ResendRequests of the peer, should_replay() parked or stalled, and
    # disconnects / closes / reconnects overlapping the reply
    rr = random.Random(seed ^ 0xC1152)
    if not speak_first and rr.random() < 0.10:
        cfg.update(prefix="active", eut_out=rr.choice([4, 6]), prefill_out=True, n_stim=max(cfg["n_stim"], 5),
                   stim_classes=rr.choice([["frame", "frame", "app_disconnect", "peer_close", "send", "peer_reconnect"],
                                           ["frame", "frame", "app_disconnect", "peer_reconnect"]]),
                   frame_types=["2", "2", "D", "1"], defects=["none", "none", "none", "seq_high"],
                   hook_names=["should_replay"], p_hook=0.8, p_overlap=rr.choice([0.3, 1.0]),
                   profile="reply_overlap")
        if rr.random() < 0.6:
            # the sharp variant: stimuli keep coming while the reply is parked (a disconnect, then the peer's
            # reconnect), the parked hook is released late - the acceptor is the role that gets a new connection
            # while its reader task is still inside the old reply
            cfg.update(eut_role="acceptor", reply_stimuli=True, w_hook_done=0.4, p_overlap=0.0)
        if cfg["hb"] < 30 and rr.random() < 0.5:
            cfg.update(p_hook_stall=0.3, hook_stall_s=rr.choice([1.5, 4.0]) * cfg["hb"])
    return cfg


class GateSim(PeerSim):
    family = "gate"

    # ---------------------------------------------------------------- setup
    def setup_family(self):
        cfg = self.cfg
        self.peer.auto.update(logon=False, testreq=False, resend=False, logout=False)
        self.peer.next_out = cfg["eut_in"]
        self.eut.auto_logon = cfg["prefix"] != "connected"
        self.epoch = 0
        self.ep = self.new_epoch()
        self.epochs = [self.ep]
        self.prefix_done = False
        self.prefix_step = 0
        self.n_stim = 0
        self.cur = None  # active stimulus window
        self.busy_sends = 0
        self.stim_log = []
        self.app_id = 0
        self.wire_ptr = 0
        self.quiet_since = None

    def new_epoch(self):
        return dict(n=self.epoch, wrote_logon=False, got_logon=False, complete=False, disconnected=False,
                    n_on_disconnect=0, first_frame_seen=False)

    def hook_p(self, label, hname):
        if self.cfg.get("mid_hook_stimuli") and hname in ("on_state_change", "on_connect", "on_logon") \
                and self.hook_counts[(label, hname)] <= (8 if self.cfg.get("speak_first") else 2):
            return 0.8  # park the first hooks of the connection: the transient Logon states become reachable
        return self.cfg["p_hook"] if hname in self.cfg["hook_names"] else 0.0

    def peer_event(self, kind):
        if kind == "connected":
            self.drive_prefix()

    # the prefix is driven from observations, deterministically
    def drive_prefix(self):
        cfg = self.cfg
        pre = cfg["prefix"]
        if self.prefix_done:
            return
        p = self.peer
        if pre == "connected":
            if p.connected and self.eut.connection_state >= ConnectionState.NETWORK_CONN_ESTABLISHED:
                self.prefix_done = True
        elif pre == "logon_sent":
            if self.ep["wrote_logon"] and p.connected:
                self.prefix_done = True
        else:
            if self.eut_role == "acceptor":
                if self.prefix_step == 0 and p.connected:
                    self.prefix_step = 1
                    p.send("A", [("98", "0"), ("108", cfg["hb"])], spec={"prefix": "logon"})
            else:
                if self.prefix_step == 0 and any(d.get("35") == "A" for (_, _, d) in p.received):
                    self.prefix_step = 1
                    p.send("A", [("98", "0"), ("108", cfg["hb"])], spec={"prefix": "logon"})
            if self.prefix_step == 1 and self.eut.connection_state == ConnectionState.ACTIVE and self.quiet():
                if pre == "active":
                    self.prefix_done = True
                else:
                    self.prefix_step = 2
                    self.app_id += 1
                    p.send("D", [("11", "GAP"), ("55", "ES")], seq=p.next_out + 2, spec={"prefix": "gap"})
            if self.prefix_step == 2 and self.eut.connection_state == ConnectionState.RESENDREQ_AWAITING and self.quiet():
                self.prefix_done = True

    # ------------------------------------------------------------ observation
    def ep_event(self, ep, kind, *args):
        e = self.ep
        if kind == "on_connect":
            self.epoch += 1
            self.ep = self.new_epoch()
            self.epochs.append(self.ep)
            return
        if kind == "on_disconnect":
            # the report may arrive late (disconnect() awaits on_state_change first) - even after the next
            # connection's on_connect: it belongs to the oldest connection that went down unreported
            for old in self.epochs:
                if old.get("state_down") and old["n_on_disconnect"] == 0:
                    e = old
                    break
            e["n_on_disconnect"] += 1
            if e["n_on_disconnect"] > 1:
                self.flag("disconnect-reported-twice", f"C11/on_disconnect-twice/{self.ctx()}",
                          f"on_disconnect called {e['n_on_disconnect']} times for one connection (epoch {e['n']})")
            e["disconnected"] = True
            e["out_at_disconnect"] = self.live().next_num_out
            return
        if kind == "on_message":
            m = args[0]
            if e["disconnected"]:
                self.flag("callback-after-disconnect", f"C11/on_message-after-disconnect/{self.ctx()}",
                          f"on_message({m.get(FTag.ClOrdID, None)!r}) after on_disconnect of the same connection")
            elif not e["complete"]:
                self.flag("delivered-before-logon", f"C11/on_message-before-logon-completed/{self.ctx()}",
                          f"on_message({m.get(FTag.ClOrdID, None)!r}, 34={m.get(FTag.MsgSeqNum, None)}) before the Logon exchange completed "
                          f"(wrote Logon: {e['wrote_logon']}, received Logon: {e['got_logon']})")
        if kind == "state":
            st = args[0]
            if st <= DISC:
                # a disconnect() in progress belongs to the connection that was up when it started
                # (disconnect() sets the state synchronously right after closing the socket, before any
                # reconnect can happen: the event belongs to the current connection)
                e["state_down"] = True
            if st == ConnectionState.ACTIVE and not e["complete"]:
                self.flag("active-before-logon", f"C11/active-before-logon-completed/{self.ctx()}",
                          f"connection became ACTIVE before the Logon exchange completed (wrote Logon: {e['wrote_logon']}, "
                          f"received Logon: {e['got_logon']})")
            if st > DISC and e["disconnected"]:
                self.flag("state-after-disconnect", f"C11/state-revived-after-disconnect/{st.name}/{self.ctx()}",
                          f"state {st.name} reported after on_disconnect of the same connection")
        if kind == "on_logon" and e["disconnected"]:
            self.probe("on_logon_after_disconnect")

    def flag(self, clause, sig, text):
        if self.violation is None:
            self.violation = Violation(clause, sig, text)
            self._stop("violation")

    def ctx(self):
        return f"role={self.eut_role}/prefix={self.cfg['prefix']}"

    def on_write(self, tr, data, dropped):
        super().on_write(tr, data, dropped)
        if tr.label != "E":
            return
        e = self.ep
        # frames completed by this write (stream view: split / coalesced writes look the same)
        all_fr = self.frames_written("E")
        fresh = all_fr[self.wire_ptr:]
        self.wire_ptr = len(all_fr)
        for (ev_w, cid_w, d, fr, dropped) in fresh:
            t = d.get("35")
            if e["disconnected"]:
                if dropped:
                    self.probe("write_attempt_after_disconnect_dropped_by_transport")
                else:
                    self.flag("frame-after-disconnect", f"C11/frame-after-disconnect/type={t}/{self.ctx()}",
                              f"frame 35={t} 34={d.get('34')} written after on_disconnect of the same connection")
            if t == "A":
                e["wrote_logon"] = True
                if e["got_logon"]:
                    e["complete"] = True
            elif not e["complete"] and t != "5":
                self.flag("frame-before-logon", f"C11/non-logon-frame-before-logon-completed/type={t}/{self.ctx()}",
                          f"frame 35={t} 34={d.get('34')} written before the Logon exchange completed")
        self.drive_prefix()

    def on_decoded(self, ev, msg, consumed, buf, raw):
        if msg is None:
            return
        d = refframer.fdict(raw)
        e = self.ep
        src = None
        for sent in reversed(self.peer.sent[-60:]):
            if sent["frame"] == raw:
                src = sent
                break
        # "dropped since" from the endpoint's side: the endpoint has taken a later connection for its own (a peer
        # connection the endpoint turned away, or has not accepted yet, does not make the frame's connection stale:
        # a frame read while the endpoint's own disconnect() is still suspended belongs to that connection)
        w = self.eut._socket_writer
        cur_cid = getattr(getattr(getattr(w, "transport", None), "conn", None), "cid", None) if w is not None else None
        own = [c.cid for c in self.net.conns]
        stale = False
        if src is not None and src.get("conn") is not None and src["conn"] < self.peer.n_connections:
            frame_cid = own[src["conn"] - 1] if 0 < src["conn"] <= len(own) else None
            stale = cur_cid is not None and frame_cid is not None and cur_cid > frame_cid
            if not stale:
                self.probe("frame_of_the_closing_connection_processed_while_the_peer_already_reconnects")
        if stale:
            self.flag("stale-input", f"C11/frame-of-a-dropped-connection-processed/type={d.get('35')}/{self.ctx()}",
                      f"frame 35={d.get('35')} 34={d.get('34')} that the peer sent on connection #{src['conn']} (dropped since) "
                      f"was decoded and processed on connection #{self.peer.n_connections}")
            return
        first = not e["first_frame_seen"]
        e["first_frame_seen"] = True
        if d.get("35") == "A" and self.frame_acceptable(d):
            e["got_logon"] = True
            if e["wrote_logon"]:
                e["complete"] = True
        if first and d.get("35") != "A" and not e["wrote_logon"]:
            e["must_drop"] = True

    def frame_acceptable(self, d):
        lv = self.live()
        try:
            ok_seq = int(d.get("34", "")) >= lv.next_num_in
        except ValueError:
            ok_seq = False
        return (d.get("8") == "FIX.4.4" and d.get("49") == lv.target_comp_id and d.get("56") == lv.sender_comp_id and ok_seq)

    # --------------------------------------------------------------- actions
    def quiet(self):
        if any(t is not None and t.paused for c in self.net.conns for t in c.tr):
            return False
        for c in self.net.conns:
            for side in (0, 1):
                if self.can_fire(["eof", c.cid, side]):
                    return False  # a close that the other end has not seen yet is still "in flight"
        return self.at_rest() and not self.pending_hooks and not self.busy_sends

    def calm(self):
        """quiet() without the 'no runnable handle' condition."""
        if any(t is not None and t.paused for c in self.net.conns for t in c.tr):
            return False
        for c in self.net.conns:
            if not c.broken and (c.q[0] or c.q[1]):
                return False
            for side in (0, 1):
                if self.can_fire(["eof", c.cid, side]):
                    return False
        return not self.pending_hooks and not self.busy_sends

    def connected_now(self):
        return self.peer.connected and self.eut.connection_state > DISC

    def enabled_actions(self):
        out = self.net_enabled()
        cfg = self.cfg
        if cfg.get("mid_hook_stimuli") and self.pending_hooks and self.n_stim < cfg["n_stim"] and \
                (self.cur is None or self.cur.get("n_overlap", 0) < 3) and \
                self.eut.connection_state >= ConnectionState.NETWORK_CONN_ESTABLISHED:
            out.append((("overlap",), 1.5))
        elif cfg.get("reply_stimuli") and self.prefix_done and self.pending_hooks and self.n_stim < cfg["n_stim"] and \
                (self.cur is None or self.cur.get("n_overlap", 0) < 4):
            # (scenario reply_overlap, sharp variant: stimuli while should_replay() is parked, whatever the state)
            out.append((("overlap",), 2.5))
        if not self.prefix_done:
            self.drive_prefix()
            return out
        if self.n_stim < cfg["n_stim"]:
            if self.cur is None and self.quiet():
                out.append((("stim",), 3.0))
            elif self.cur is not None and cfg["p_overlap"] > 0 and self.cur.get("n_overlap", 0) < 3:
                out.append((("overlap",), cfg["p_overlap"]))
        return out

    def fault_phase_over(self):
        if super().fault_phase_over():
            return True
        if not self.prefix_done:
            return self.n_boundaries > 300
        return self.n_stim >= self.cfg["n_stim"] and self.cur is None and self.quiet()

    def draw_stim(self, overlap=False):
        r = self.rng
        cfg = self.cfg
        classes = cfg["stim_classes"]
        if overlap:
            if cfg.get("speak_first") and self.peer.connected and r.random() < 0.5:
                # the peer speaks first: its Logon arrives while the initiator's own Logon send is still parked
                # in the state hook (the state is already LOGON_INITIAL_SENT)
                return ["frame", "A", "none", 0, 1]
            classes = [c for c in classes if c in ("app_disconnect", "peer_close", "send")] or ["app_disconnect"]
            if cfg.get("reply_stimuli"):
                # while the reply is parked: the session is ended by another task, then the peer comes back
                classes = ["peer_reconnect"] if not self.peer.connected else ["app_disconnect", "app_disconnect", "send"]
        elif cfg.get("reply_stimuli") and self.peer.connected and \
                self.eut.connection_state == ConnectionState.ACTIVE:
            classes = ["frame"]
        cls = r.choice(classes)
        if cls in ("frame", "frame_burst") and not self.peer.connected:
            cls = "peer_reconnect" if (self.eut_role == "acceptor" and r.random() < 0.7) else "send"
        if cls == "peer_reconnect" and (self.peer.connected or self.eut_role != "acceptor"):
            cls = "send"
        if cls == "frame_burst":
            # a defective frame with valid frames right behind it in the same read
            defect = r.choice([d for d in cfg["defects"] if d not in ("none", "seq_high", "begin")] or ["seq_missing"])
            return [cls, r.choice(["D", "0", "5", "A"]), defect, r.randint(1, 3), r.randint(1, 3)]
        if cls == "peer_reconnect":
            return [cls, "x", 0, 0, 0]
        if cls == "frame":
            t = r.choice(cfg["frame_types"])
            defect = r.choice(cfg["defects"])
            pd = int(r.random() < 0.15)
            w = r.randint(1, 3)
            if t == "Abare":
                w = r.randint(1, 7)  # 4..7: duplicated 108 / 98, HeartBtInt that is not an integer
            return [cls, t, defect, pd, w]
        if cls == "send":
            types = SEND_TYPES
            if self.eut_role == "acceptor":
                # an acceptor-class endpoint whose application sends a Logon of its own acts in a role the
                # library does not intend (crossing Logons): not judged either way, so not generated
                types = [t for t in SEND_TYPES if t != "A"]
            return [cls, r.choice(types), 0, 0, 0]
        if cls == "app_disconnect":
            return [cls, r.choice(["plain", "logout", "logout_empty"]), 0, 0, 0]
        if cls == "peer_close" and random.Random(cfg["seed"] ^ 0xC11B4).random() < 0.4:
            # (in 40 % of the runs) the connection does not end with a clean EOF but is lost with a transport error:
            # reset, broken pipe, or - not a ConnectionError - a timeout
            return [cls, r.choice(["x", "reset", "pipe", "timeout", "timeout"]), 0, 0, 0]
        return [cls, "x", 0, 0, 0]

    def concretize(self, proto):
        if proto[0] == "stim":
            return ["stim"] + self.draw_stim()
        if proto[0] == "overlap":
            return ["overlap"] + self.draw_stim(overlap=True)
        return super().concretize(proto)

    def can_fire_family(self, a):
        if self.n_stim >= self.cfg["n_stim"]:
            return False
        if not self.prefix_done and not (a[0] == "overlap" and self.cfg.get("mid_hook_stimuli") and self.pending_hooks):
            return False
        if a[0] == "stim":
            return self.cur is None and self.quiet()
        if a[0] == "overlap":
            return self.cur is not None or bool((self.cfg.get("mid_hook_stimuli") or self.cfg.get("reply_stimuli"))
                                                and self.pending_hooks)
        return False

    def fire_family(self, a):
        if a[0] not in ("stim", "overlap"):
            return super().fire_family(a)
        self.n_stim += 1
        _, cls, x, y, z, w = a
        if a[0] == "overlap":
            if self.cur is None:
                # a stimulus while a hook is parked (no window of its own: only the gate invariants judge it)
                lv0 = self.live()
                self.cur = dict(cls="mid_hook", x=x, y=y, ev0=self.evno, E=lv0.next_num_in, out=lv0.next_num_out,
                                state=self.eut.connection_state, complete=self.ep["complete"], epoch=self.epoch,
                                delivered=len(self.eut.delivered), writes=len(self.writes.get("E", [])),
                                stored=self.journal.stored(), disconnected=self.ep["disconnected"], overlap=True)
                self.fault("stimulus_while_a_hook_is_parked")
            self.cur["overlap"] = True
            self.cur["n_overlap"] = self.cur.get("n_overlap", 0) + 1
            self.fault("overlapping_stimulus_" + cls)
            self.do_stim(cls, x, y, z, w, None)
            return
        lv = self.live()
        self.cur = dict(cls=cls, x=x, y=y, ev0=self.evno, E=lv.next_num_in, out=lv.next_num_out,
                        state=self.eut.connection_state, complete=self.ep["complete"], epoch=self.epoch,
                        delivered=len(self.eut.delivered), writes=len(self.writes.get("E", [])),
                        stored=self.journal.stored(), disconnected=self.ep["disconnected"], overlap=False)
        self.do_stim(cls, x, y, z, w, self.cur)

    def do_stim(self, cls, x, y, z, w, cur):
        p = self.peer
        lv = self.live()
        if cls == "frame":
            if not p.connected:
                if cur is not None:
                    cur["skipped"] = True
                return
            t, defect, pd = x, y, bool(z)
            E = lv.next_num_in
            kw = {}
            seq = E
            if defect == "begin":
                kw["begin"] = b"FIX.4.2"
            elif defect == "sender_wrong":
                # (w == 3: wrong only in letter case - CompIDs are compared exactly)
                kw["sender"] = p.comp_id.swapcase() if w == 3 and p.comp_id.swapcase() != p.comp_id else "EVIL"
            elif defect == "target_wrong":
                kw["target"] = p.eut_comp_id.swapcase() if w == 3 and p.eut_comp_id.swapcase() != p.eut_comp_id else "ELSE"
            elif defect == "swapped":
                kw["sender"], kw["target"] = p.eut_comp_id, p.comp_id
            elif defect == "sender_missing":
                kw["omit"] = ("49",)
            elif defect == "target_missing":
                kw["omit"] = ("56",)
            elif defect == "seq_missing":
                kw["omit"] = ("34",)
            elif defect == "seq_low":
                seq = E - w
                if seq < 1:
                    seq, defect = E, "none"
            elif defect == "seq_high":
                seq = E + w
            elif defect == "seq_alpha":
                seq = ["abc", "1x", ""][w % 3]
            self.app_id += 1
            body = {"A": [("98", "0"), ("108", self.cfg["hb"])], "0": [], "1": [("112", (f"Q\u00e9\u4e2d{self.app_id}".encode("utf-8") if self.cfg.get("u8_testreq") else f"Q{self.app_id}"))],
                    "2": [("7", "1"), ("16", "0")], "4gf": [("123", "Y"), ("36", (seq if isinstance(seq, int) else E) + 2)],
                    "4rs": [("36", (seq if isinstance(seq, int) else E) + 2)],
                    "5": [("58", "bye")]}.get(t, [("11", f"P-{self.app_id}"), ("55", "ES"), ("54", "1"), ("38", "1"), ("44", "1")])
            if t == "Abare":
                # a Logon without EncryptMethod / HeartBtInt
                hb = self.cfg["hb"]
                body = {1: [("98", "0")], 2: [("108", hb)], 3: [],
                        4: [("98", "0"), ("108", hb), ("108", hb)], 5: [("98", "0"), ("98", "0"), ("108", hb)],
                        6: [("98", "0"), ("108", f"{hb}.0")], 7: [("98", "0"), ("108", "thirty")]}[w]
            mt = "4" if t.startswith("4") else ("A" if t == "Abare" else t)
            ent = p.send(mt, body, seq=seq, possdup=pd, count=False, spec={"stim": 1, "defect": defect}, **kw)
            if cur is not None:
                cur.update(t=t, defect=defect, pd=pd, seq=seq, frame=ent["frame"])
            self.fault("defect_" + defect)
        elif cls == "send":
            self.busy_sends += 1
            self.spawn(self._do_send(x, cur), f"app-send-{self.n_stim}")
        elif cls == "app_disconnect":
            self.busy_sends += 1
            self.spawn(self._do_disconnect(x), f"app-disconnect-{self.n_stim}")
            self.fault("app_disconnect")
        elif cls == "peer_close":
            live = [c for c in self.net.conns if self.breakable(c)]
            if p.connected and x in ("reset", "pipe", "timeout") and live:
                self.fire(["break", live[-1].cid, x, x, 0])
                self.fault("peer_close_with_transport_error_" + x)
            elif p.connected:
                p.close()
                self.fault("peer_close")
        elif cls == "peer_reconnect":
            if not p.connected and self.eut_role == "acceptor" and not any(c.alive() for c in self.net.conns):
                self.peer_connect()
                self.fault("peer_reconnect")
        elif cls == "frame_burst":
            if not p.connected:
                if cur is not None:
                    cur["skipped"] = True
                return
            t, defect, n_follow = x, y, int(z)
            E = lv.next_num_in
            kw = {}
            seq = E
            if defect == "sender_wrong":
                kw["sender"] = "EVIL"
            elif defect == "target_wrong":
                kw["target"] = "ELSE"
            elif defect == "swapped":
                kw["sender"], kw["target"] = p.eut_comp_id, p.comp_id
            elif defect == "sender_missing":
                kw["omit"] = ("49",)
            elif defect == "target_missing":
                kw["omit"] = ("56",)
            elif defect == "seq_missing":
                kw["omit"] = ("34",)
            elif defect == "seq_low":
                seq = max(1, E - w)
            self.app_id += 1
            body0 = {"A": [("98", "0"), ("108", self.cfg["hb"])], "0": [], "5": [("58", "bye")]}.get(
                t, [("11", f"P-{self.app_id}"), ("55", "ES"), ("54", "1"), ("38", "1"), ("44", "1")])
            items = [(t, body0, seq, kw)]
            nxt = E
            items.append(("A", [("98", "0"), ("108", self.cfg["hb"])], nxt, {}))
            for i in range(n_follow):
                self.app_id += 1
                nxt += 1
                items.append(("D", [("11", f"P-{self.app_id}"), ("55", "ES"), ("54", "1"), ("38", "1"), ("44", "1")], nxt, {}))
            p.send_many(items, spec={"stim": 1, "defect": defect, "burst": 1})
            self.fault("defective_frame_with_frames_behind_it_in_the_same_read")
            if cur is not None:
                cur.update(cls="burst")

    def build_send(self, t):
        self.app_id += 1
        if t == "D":
            return FIXMessage("D", {11: f"L-{self.app_id}", 55: "NQ", 54: "1", 38: 1, 44: "1.0"})
        if t == "0":
            return FIXMessage(FMsg.HEARTBEAT)
        if t == "A":
            return FIXMessage(FMsg.LOGON, {FTag.EncryptMethod: "0", FTag.HeartBtInt: self.cfg["hb"]})
        if t == "5":
            return FIXMessage(FMsg.LOGOUT)
        if t == "2":
            return FIXMessage(FMsg.RESENDREQUEST, {FTag.BeginSeqNo: 1, FTag.EndSeqNo: "0"})
        if t == "4":
            m = FIXMessage(FMsg.SEQUENCERESET, {FTag.NewSeqNo: self.live().next_num_out + 3})
            return m
        raise AssertionError(t)

    async def _do_send(self, t, cur):
        eut = self.eut
        lv = self.live()
        before = (lv.next_num_out, self.journal.stored()[1], len(self.writes.get("E", [])))
        complete = self.ep["complete"]
        disc = self.ep["disconnected"] or eut.connection_state <= DISC
        st = eut.connection_state
        outcome = None
        try:
            if t == "1":
                await eut.send_test_req()
            else:
                await eut.send_msg(self.build_send(t))
            outcome = "ok"
        except FIXConnectionError:
            outcome = "refused"
        except Exception as e:
            outcome = type(e).__name__
        finally:
            self.busy_sends -= 1
        self.rec("app_send", t, outcome, st.name)
        self.probe(f"send_{outcome if outcome in ('ok', 'refused') else 'raised'}_in_{st.name}")
        after = (lv.next_num_out, self.journal.stored()[1], len(self.writes.get("E", [])))
        gated = (not complete and t not in ("A", "5")) or disc
        if gated and not (cur is not None and cur.get("overlap")):
            where = "after-disconnect" if disc else "before-logon-completed"
            if outcome != "refused":
                self.flag("send-not-refused", f"C11/send-not-refused/{where}/type={t}/state={st.name}/outcome={outcome}",
                          f"send of 35={t} in {st.name} ({where}) was not refused with FIXConnectionError: {outcome}")
            elif after != before:
                self.flag("refused-send-had-effects", f"C11/refused-send-had-effects/{where}/type={t}/state={st.name}",
                          f"refused send of 35={t} in {st.name} changed (next_out, stored next_out, writes) {before} -> {after}")

    async def _do_disconnect(self, how):
        try:
            msg = {"plain": None, "logout": "application says goodbye", "logout_empty": ""}[how]
            await self.eut.disconnect(ConnectionState.DISCONNECTED_WCONN_TODAY, logout_message=msg)
            self.rec("app_disconnect_done", how)
        except Exception as e:
            self.rec("app_disconnect_raised", how, type(e).__name__)
            self.probe("app_disconnect_raised_" + type(e).__name__)
        finally:
            self.busy_sends -= 1

    # ----------------------------------------------------- per-stimulus judge
    def window_over(self):
        """The endpoint polls an unconnected socket once per second, so a window only ends after the
        endpoint has been quiet for more than one tick of virtual time."""
        if not self.calm():
            self.quiet_since = None
            return False
        now = self.loop.time()
        if self.quiet_since is None:
            self.quiet_since = now
        # (the once-per-second polling of the library's own tasks makes a handle runnable at every other
        # boundary: that alone does not restart the clock, but the window closes at a boundary without one)
        return now - self.quiet_since >= 1.1 and self.quiet()

    def boundary_check(self):
        e = self.ep
        if e["disconnected"] and self.live().next_num_out != e.get("out_at_disconnect"):
            raise Violation("send-after-disconnect", f"C11/number-consumed-after-disconnect/{self.ctx()}",
                            f"next outbound number went {e.get('out_at_disconnect')} -> {self.live().next_num_out} after "
                            "on_disconnect of the connection: a send was not refused")
        if not self.prefix_done:
            self.drive_prefix()
        if self.cur is not None and self.window_over():
            cur, self.cur = self.cur, None
            self.quiet_since = None
            self.close_window(cur)

    def judge(self):
        # a connection whose transport is gone is disconnected and has said so: the reader / heartbeat task of the
        # library must not have died on the way (a dead reader leaves the endpoint ACTIVE on a dead socket, sends
        # still consume numbers, nothing is ever reported)
        dead = self.dead_tasks()
        if self.violation is None and self.stop_reason == "settled":
            live_tr = [t for c in self.net.conns for t in c.tr
                       if t is not None and t.label == "E" and not t._lost_called and not t._closing]
            had_tr = any(t is not None and t.label == "E" for c in self.net.conns for t in c.tr)
            if self.eut.connection_state > DISC and had_tr and not live_tr and not self.pending_hooks:
                why = dead[0][1].split("(")[0] if dead else "no-task-died"
                raise Violation("library-task-died", f"C11/connected-state-on-a-dead-transport/{why}",
                                f"every transport of the endpoint is gone (quiescent, settle phase over) but the state is "
                                f"{self.eut.connection_state.name} and on_disconnect was reported "
                                f"{self.eut.n_on_disconnect} time(s); library tasks that died: {dead[:1]}")
            if dead:
                self.probe("library_task_died_after_a_consistent_disconnect")
        if not self.prefix_done:
            self.probe("prefix_not_reached")
            return
        if self.cur is not None and self.quiet():
            # the settle phase ran to quiescence plus settle_extra_s (> one poll tick)
            cur, self.cur = self.cur, None
            self.close_window(cur)

    def close_window(self, cur):
        if self.violation is not None or cur.get("skipped"):
            return
        self.stim_log.append((cur["cls"], cur.get("t", cur["x"]), cur.get("defect"), cur["state"].name,
                              self.eut.connection_state.name, cur.get("overlap")))
        if cur["cls"] != "frame" or cur.get("overlap") or cur["disconnected"] or cur["epoch"] != self.epoch:
            return
        if self.cfg["hb"] < 30:
            # with a 1-2 s heartbeat the watchdog's own TestRequests / disconnects fall into the window: the
            # reaction to the frame cannot be told apart, only the global gate invariants are judged
            self.probe("window_not_judged_watchdog_noise")
            return
        defect, t, pd = cur["defect"], cur["t"], cur["pd"]
        st0 = cur["state"]
        lv = self.live()
        delivered = [m for (_, mid, m) in self.eut.delivered[cur["delivered"]:]]
        wrote = []
        for (ev, cid, d, fr, dropped) in self.frames_written("E"):
            if ev <= cur["ev0"] or d.get("35") == "1":
                continue  # (35=1: the watchdog's own timer-driven TestRequest, not a reaction to the frame)
            wrote.append(d)
        now = self.eut.connection_state
        disconnected = now <= DISC
        ctx = f"defect={defect}/type={t}/state={st0.name}/role={self.eut_role}"

        def bad(clause, text):
            raise Violation(clause, f"C11/{clause}/{ctx}",
                            f"peer frame 35={t} 34={cur['seq']} defect={defect} possdup={'Y' if pd else 'N'} in {st0.name}: {text}")

        if st0 <= DISC:
            return
        in_recovery = st0 in (ConnectionState.RESENDREQ_AWAITING, ConnectionState.RECV_SEQNUM_TOO_HIGH)
        if defect == "begin":
            if delivered:
                bad("wrong-beginstring-delivered", "handed to on_message")
            if lv.next_num_in != cur["E"]:
                bad("wrong-beginstring-counted", f"inbound counter {cur['E']} -> {lv.next_num_in}")
            if wrote:
                bad("wrong-beginstring-answered", f"caused frames {[(d.get('35'), d.get('34')) for d in wrote]}")
            self.probe("wrong_beginstring_discarded")
            return
        integrity = defect in ("sender_wrong", "target_wrong", "swapped", "sender_missing", "target_missing", "seq_missing",
                               "seq_alpha")
        too_low = defect == "seq_low" and not t.startswith("4") and not in_recovery  # (PossDupFlag or not: the statement makes no exception)
        if integrity or too_low:
            if delivered:
                bad("defective-frame-delivered", "handed to on_message")
            if lv.next_num_in != cur["E"]:
                bad("defective-frame-counted", f"inbound counter {cur['E']} -> {lv.next_num_in}")
            if not disconnected:
                bad("defective-frame-tolerated", f"connection is {now.name}, not disconnected")
            identifiable = defect in ("seq_missing", "seq_low", "seq_alpha")
            if identifiable and cur["complete"]:
                lo = [d for d in wrote if d.get("35") == "5"]
                if not lo or not lo[0].get("58"):
                    bad("no-logout-reason", "session dropped without a Logout stating the reason although CompIDs were correct")
            self.probe("defective_frame_dropped_session")
            return
        if defect == "seq_low" and t == "4gf":
            # a GapFill is exempt from the too-low disconnect only in so far as a duplicate of an earlier one is
            # ignored: whatever its NewSeqNo says, a too-low frame never moves the inbound counter
            if lv.next_num_in != cur["E"]:
                bad("too-low-gapfill-counted", f"inbound counter {cur['E']} -> {lv.next_num_in}")
            self.probe("too_low_gapfill_ignored")
            return
        if not cur["complete"] and defect in ("none", "seq_high"):
            # before the Logon exchange completed: nothing but Logon/Logout is acted upon (global invariants
            # already cover callbacks / ACTIVE / reply frames); the acceptor drops on a non-Logon first frame
            if self.eut_role == "acceptor" and st0 == ConnectionState.NETWORK_CONN_ESTABLISHED and t not in ("A", "Abare"):
                if not disconnected:
                    bad("first-frame-not-logon-tolerated", f"acceptor stayed {now.name} after a non-Logon first frame")
                if lv.next_num_in != cur["E"]:
                    bad("first-frame-not-logon-counted", f"inbound counter {cur['E']} -> {lv.next_num_in}")
                self.probe("acceptor_dropped_on_non_logon_first_frame")
            elif t not in ("A", "Abare", "5") and lv.next_num_in != cur["E"]:
                self.probe("silent_counter_advance_before_logon")

    def converged(self):
        return True

    def abstract_state(self):
        e = self.ep
        return (int(self.eut.connection_state), e["complete"], e["disconnected"], min(self.epoch, 3),
                self.cur is not None, len(self.pending_hooks) > 0, self.busy_sends > 0)

    def sample(self):
        d = super().sample()
        d["stimuli(class,type,defect,state_before,state_after,overlapped)"] = self.stim_log[:20]
        return d
