"""Registry of checks: property id -> check object."""
import importlib

_IDS = {
    "C02": "c02", "C03": "c03", "C04": "c04", "C05": "c05", "C06": "c06", "C07": "c07",
    "C08": "c08", "C09": "c09", "C10": "c10", "C11": "c11", "C12": "c12", "C13": "c13",
    "C14": "c14", "C17": "c17", "C20": "c20",
}


def get(check_id):
    mod = importlib.import_module(f"simfix.checks.{_IDS[check_id]}")
    return mod.CHECK


def available():
    out = []
    for cid, m in _IDS.items():
        try:
            importlib.import_module(f"simfix.checks.{m}")
            out.append(cid)
        except ModuleNotFoundError:
            pass
    return out
