"""Registry of checks: property id -> check object."""
import importlib

_IDS = {
    "C02": "c02", "C03": "c03", "C04": "c04", "C05": "c05", "C06": "c06", "C07": "c07",
    "C08": "c08", "C09": "c09", "C10": "c10", "C11": "c11", "C12": "c12", "C13": "c13",
    "C14": "c14", "C17": "c17", "C20": "c20",
}


def get(check_id):
    mod = importlib.import_module(f"simfix.checks.{_IDS[check_id]}")
    c = mod.CHECK
    if hasattr(c, "make_sim") and not getattr(c, "_prop_tagged", False):
        orig = c.make_sim

        def make_sim(cfg, trace=None, _orig=orig, _id=c.ID):
            sim = _orig(cfg, trace)
            try:
                sim.prop_id = _id  # (names the property in clauses every family shares, e.g. the spin clause)
            except Exception:
                pass
            return sim

        c.make_sim = make_sim
        c._prop_tagged = True
    return c


def available():
    out = []
    for cid, m in _IDS.items():
        try:
            importlib.import_module(f"simfix.checks.{m}")
            out.append(cid)
        except ModuleNotFoundError:
            pass
    return out
