"""C03 -- stream reassembly is independent of how the byte stream is chunked."""
from ..families import stream
from .base import SimCheck


class C03(SimCheck):
    ID = "C03"
    LEVEL = "exploration"
    QUICK_RUNS = 20000
    THOROUGH_RUNS = 400000
    rule = (
        "one evaluation = one simulated session in which a well-behaved scripted peer writes a stream of 1..12 "
        "(quick) / 24 (thorough) consecutive valid frames (Heartbeat, TestRequest, application frames of 40 B..12 KB), "
        "optionally with marker-free garbage between frames, and the chooser cuts the byte stream into reads by "
        "one law per run: whole frames, ONE cut at offset (run index mod stream length) -- systematic, so a batch "
        "covers every offset of short streams --, two cuts, 1-byte reads, 1..8-byte reads, mixed/Pareto sizes, "
        "cuts placed -7..+8 bytes around a frame-start marker, reads above 4096 bytes, everything at once; 1 run in 7 "
        "adds a network stall of 1.2 heartbeat intervals of simulated time between two parts of one frame; the "
        "real StreamReader and the real socket_read_task reassemble; oracle: on_message sequence, TestRequest "
        "replies, inbound journal rows byte for byte, and a frame sent afterwards is still delivered; "
        "non-trivial = >= 3 chooser actions; distinct = distinct (event kind, actor) sequence digest"
    )
    assumptions = [
        "garbage between frames contains no frame-start marker and does not end in a marker prefix",
        "virtual time stands still during delivery (heartbeat 1000 s; 5 s in the runs with a stall), so replies do not depend on timestamps",
    ]

    def make_config(self, seed, tier, index=0):
        return stream.make_config(seed, tier, corrupt=False, index=index)

    def make_sim(self, cfg, trace=None):
        return stream.StreamSim(cfg, trace)


CHECK = C03()
