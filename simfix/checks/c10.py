"""C10 -- the decoder is total, makes progress and never accepts a corrupted frame
(claimed for the live reader under stream corruption)."""
from ..families import stream
from .base import SimCheck


class C10(SimCheck):
    ID = "C10"
    LEVEL = "exploration"
    QUICK_RUNS = 20000
    THOROUGH_RUNS = 400000
    rule = (
        "one evaluation = one simulated session: a well-behaved scripted peer streams 1..6 valid frames at a real "
        "endpoint; the chooser injects 1..3 faults into the bytes in flight -- single-byte substitution, deletion, "
        "insertion (incl. NUL), duplication at any offset -- and/or grammar-aware malformed frames (non-numeric / "
        "negative / huge BodyLength, non-numeric CheckSum or tag, missing '=', empty field, wrong field order, "
        "truncated frame, wrong BeginString, random blob), followed by 8..12 valid frames and one final frame, "
        "delivered under a seeded chunking law (same read as the damage or later reads); observed at the public "
        "Codec.decode (wrapped for the run) and at the live reader; non-trivial = at least one fault fired"
    )
    assumptions = [
        "the peer honours the endpoint's ResendRequests, so the session itself can recover from a dropped frame",
        "resynchronisation is demanded within the last 4 of >= 8 follow-up frames, not instantly",
    ]

    def make_config(self, seed, tier, index=0):
        return stream.make_config(seed, tier, corrupt=True, index=index)

    def make_sim(self, cfg, trace=None):
        return stream.StreamSim(cfg, trace)

    def nontrivial(self, res):
        return any(k.startswith(("corrupt_", "malformed_")) for k in (res.get("faults") or {}))


CHECK = C10()
