"""C09 -- restarting an endpoint is transparent to the session."""
import random

from ..families import restart
from .base import COMPONENTS_SESSION, SimCheck


class C09(SimCheck):
    ID = "C09"
    LEVEL = "fault_enumeration"
    QUICK_RUNS = 1200
    THOROUGH_RUNS = 8000
    max_reports = 6
    minimise_budget_s = 40.0
    rule = (
        "one run = one seeded history of the pair family (AsyncFIXClient <-> AsyncFIXDummyServer, both real, file-backed journals: "
        "<= 8 (quick) / 14 (thorough) application sends per side, deliveries, <= 2 connection breaks, back-pressure, hook "
        "suspensions, <= 2 graceful restarts of the victim endpoint at quiescent points with / without a Logout), executed first "
        "without a kill while the seam crossings of the victim are numbered (before/after every journal SQL statement and commit, "
        "before/after every transport write, every instant parked in drain); one evaluation = that history, or its re-execution "
        "with an abrupt death of the victim at one crossing -- all crossings of the fault phase, or a seeded sample of crash_cap=40 "
        "(quick) / 120 (thorough) when there are more; the journal file image of that instant is what the next incarnation (new "
        "Journaler + new connection object) starts from; followed by the fault-free settle phase (reconnect, Logon, resend); "
        "1 history in 4 draws the overlap profile (parked / stalled hooks, slow closes, 2-3 breaks); at idle points of any session state (at most 6 per execution) a new Journaler on the file image must load the live counters; "
        "non-trivial = the evaluation restarted the victim at least once; distinct = distinct (history, crossing)"
    )
    assumptions = [
        "kill = abrupt process exit: the journal file image at the crossing survives (page cache survives, no power loss); what the victim "
        "had already written to its socket is still delivered (or lost with a reset, per run), what was in flight towards it is lost",
        "crossings are seams of the library's public collaborators (transport, journal); instants between two seams are not distinct kill points",
        "a message that was handed to on_message of the killed incarnation and is the last one it received may be delivered once more to the "
        "next incarnation (it was in flight inside the victim); any other duplicate is a violation",
        "the no-ResendRequest clause is applied to graceful restarts at quiescent points with nothing in flight and agreeing counters only",
        "histories are sampled; kill points per history are enumerated (sampled above the cap)",
    ]
    components = {
        "real": COMPONENTS_SESSION["real"] + ["SQLite files on tmpfs reached through a statement/commit proxy; file images copied at the kill instant"],
        "stub": COMPONENTS_SESSION["stub"] + ["process death -> Killed(BaseException) raised out of the seam inside the victim, its tasks cancelled, "
                                              "its transport severed, its journal proxy refusing further statements"],
    }

    def chunk(self, tier):
        return 8

    def make_config(self, seed, tier, index=0):
        return restart.make_config(seed, tier)

    def make_sim(self, cfg, trace=None):
        return restart.RestartSim(cfg, trace)

    def run_seed(self, seed, tier, index=0, want_sample=False):
        cfg = self.make_config(seed, tier, index)
        sim = self.make_sim(cfg)
        base = sim.run()
        base["config"] = cfg
        base["evaluations"] = 1
        base["nontrivial"] = bool(base["faults"].get("graceful_restart"))
        ileaves = {base["ileave"]} if base["nontrivial"] else set()
        if want_sample:
            base["sample"] = dict(seed=seed, **sim.sample())
        if base["violation"] is not None:
            base["ileaves_extra"] = []
            return base
        trace = base["trace"]
        K = base["n_crossings"]
        pts = list(range(1, K + 1))
        if K > cfg["crash_cap"]:
            pts = sorted(random.Random(seed ^ 0x9C09).sample(pts, cfg["crash_cap"]))
            base["probes"]["histories_with_sampled_crossings"] = 1
        base["stats"]["crossings_enumerated"] = len(pts)
        for k in pts:
            cfg2 = dict(cfg, kill_at=k)
            r2 = self.make_sim(cfg2, trace).run()
            base["evaluations"] += 1
            for key in ("faults", "probes", "stats"):
                for n, v in (r2.get(key) or {}).items():
                    base[key][n] = base[key].get(n, 0) + v
            base["handles"] += r2["handles"]
            base["sim_seconds"] += r2["sim_seconds"]
            base["actions"] += r2["actions"]
            base["abs_states"] = list(set(base["abs_states"]) | set(r2["abs_states"]))
            if not r2["faults"].get("kill"):
                base["probes"]["kill_point_not_reached_in_rerun"] = base["probes"].get("kill_point_not_reached_in_rerun", 0) + 1
            else:
                ileaves.add(r2["ileave"])
            if r2["violation"] is not None:
                r2["config"] = cfg2
                r2["evaluations"] = base["evaluations"]
                r2["nontrivial"] = True
                for key in ("faults", "probes", "stats", "handles", "sim_seconds", "actions", "abs_states"):
                    r2[key] = base[key]
                r2["trace"] = trace
                r2["ileaves_extra"] = list(ileaves)
                if want_sample:
                    r2["sample"] = base.get("sample")
                return r2
        base["trace"] = None
        base["nontrivial"] = base["nontrivial"] or len(pts) > 0
        base["ileaves_extra"] = list(ileaves)
        return base


CHECK = C09()
