"""C06 -- a ResendRequest is answered completely, in order and without side effects."""
from ..families import resend
from .base import SimCheck


class C06(SimCheck):
    ID = "C06"
    LEVEL = "exploration"
    QUICK_RUNS = 20000
    THOROUGH_RUNS = 400000
    rule = (
        "one evaluation = one simulated session: the real endpoint's outbound journal is pre-populated through "
        "the public Journaler API with up to 25 (quick) / 40 (thorough) slots, each an application message, a "
        "message the replay filter declines, a session message of any type, a hole, or the PossDup copy / gap "
        "fill an earlier resend left behind; it is extended by live sends; then the scripted peer sends 1..4 "
        "(8) ResendRequest(b, e) with b, e from {0, 1, mid, last, last+-1, far, e<b, negative}, repeats over the "
        "same range being the main bias, in ACTIVE and while the endpoint itself awaits a resend, with "
        "should_replay / on_state_change suspension and back-pressure; the reply chain, journal, counters "
        "1 run in 6 ends with a request read while the application's disconnect() is suspended in drain() (it must be begun); "
        "and state are compared with the specification after every request; non-trivial = >= 3 chooser actions"
    )
    assumptions = [
        "session-level types are 0,1,2,3,4,5,A; types on which FIX and the library disagree (35=3, 35=n) are not journaled",
        "rows inside the requested range may be rewritten by the implementation (the property constrains rows outside the range)",
    ]

    def make_config(self, seed, tier, index=0):
        return resend.make_config(seed, tier)

    def make_sim(self, cfg, trace=None):
        return resend.ResendSim(cfg, trace)


CHECK = C06()
