"""C13 -- the journal is a faithful per-session, per-direction message store."""
from ..families import journal
from .base import SimCheck


class JournalCheck(SimCheck):
    """Shared plumbing of the two journal checks (no asyncio simulator involved)."""

    family = "journal"
    last_minimise_replays = 0

    def make_config(self, seed, tier, index=0):
        return journal.make_config(seed, tier, index, self.ID)

    def chunk(self, tier):
        return 200

    def _run(self, cfg, ops, crash, search):
        raise NotImplementedError

    def run_seed(self, seed, tier, index=0, want_sample=False):
        cfg = self.make_config(seed, tier, index)
        ops = journal.generate(cfg)
        res = self._run(cfg, ops, None, True)
        if want_sample:
            res["sample"] = self._sample(seed, ops, res)
        return res

    def replay(self, cfg, trace):
        ops = [list(o) for o in trace["ops"]]
        crash = trace.get("crash")
        return self._run(cfg, ops, crash, False)

    def _sample(self, seed, ops, res):
        return dict(seed=seed, ops=ops)

    def minimise_trace(self, cfg, trace, signature):
        """Delta-debug the operation list while the same signature persists; returns the
        smaller trace (with, for C08, the crash point that fails in it)."""
        small, n = journal.minimise_ops(self.replay, cfg, trace, signature, budget_s=self.minimise_budget_s)
        self.last_minimise_replays = n
        return small

    def show_replay(self, cfg, trace, n):
        for line in journal.describe_ops(trace["ops"])[:n]:
            print("   ", line)
        print("    crash point:", trace.get("crash"))
        r = self.replay(cfg, trace)
        print("    probes:", r.get("probes"))


class C13(JournalCheck):
    ID = "C13"
    LEVEL = "exploration"
    QUICK_RUNS = 50000
    THOROUGH_RUNS = 750000
    max_reports = 6
    rule = (
        "one evaluation = one seeded history of 3..40 public-API operations (create_or_load, persist_msg IN/OUT, "
        "set_seq_num in every argument shape, reset, recover_msg, recover_messages, get_all_msgs with/without "
        "filters, sessions(), close + reopen) over up to 3 CompID pairs incl. mirror images, executed on a real "
        "file-backed Journaler and on a dict model; after EVERY operation the return value / exception type and "
        "the complete observable content (sessions(), create_or_load of every listed pair, recover_messages(-(2**63-1), "
        "2**63-1) per pair and direction, get_all_msgs()) are compared with the model; non-trivial = history has "
        ">= 3 mutating operations (load/persist/set/reset); distinct = distinct sequence of (operation kind, "
        "direction) of the history"
    )
    assumptions = [
        "fault-free: no crash, no failing statement; close + reopen (del Journaler, new Journaler on the same file) is the only event",
        "sequence numbers are integers 1 .. about 2**62+200 (the next number must fit SQLite's signed 64-bit INTEGER); range bounds are integers -5 .. 2**63-1",
        "the order of get_all_msgs() is not part of the statement: its result is compared as a multiset",
        "get_all_msgs(sessions=[]) is modelled as 'no session filter' (the parameter is documented optional)",
        "session objects used in operations are those returned by create_or_load (their fields are modelled); objects returned by sessions() are compared, not reused",
        "avoidance knobs (DESIGN 5): 30% of runs generate no set_seq_num/reset, 20% no reopen, 50% do not compare the next-out number reported by sessions()",
        "sampling of histories, not exhaustive enumeration",
    ]
    components = {
        "real": [
            "asyncfix.journaler.Journaler, FIXSession, MessageDirection, errors (imported from the working tree, unmodified)",
            "Python sqlite3 module and the SQLite engine (unproxied in this check)",
            "a real database file in a per-run directory on tmpfs (/dev/shm), removed after the run",
        ],
        "stub": ["nothing is stubbed; the reference model is a dict {(pair, direction, seq): bytes} plus two counters per pair"],
    }

    def _run(self, cfg, ops, crash, search):
        return journal.run_c13(cfg, ops)


CHECK = C13()
