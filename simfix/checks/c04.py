"""C04 -- inbound application messages delivered in order, once, never past a gap."""
from ..families import inbound
from .base import SimCheck


class C04(SimCheck):
    ID = "C04"
    LEVEL = "exploration"
    QUICK_RUNS = 20000
    THOROUGH_RUNS = 400000
    rule = (
        "one evaluation = one simulated session of a real endpoint (either role, seeded starting counters) "
        "against an arbitrary scripted counterparty with correct CompIDs: up to 40 (quick) / 80 (thorough) "
        "frames, each of a seeded type (application, Heartbeat, TestRequest, ResendRequest, "
        "SequenceReset-GapFill, SequenceReset-Reset) numbered below / at / one above / far above the "
        "receiver's expectation, with or without PossDupFlag, while on_message may be suspended; every "
        "reaction (callbacks, frames written, live inbound counter) is compared frame by frame with a "
        "1 run in 5 has a closing window: the application logs out under back-pressure held to the end of the fault phase, its disconnect() stays in drain() while the counterparty keeps sending (never two requests for one gap); "
        "15-line reference receiver; non-trivial = >= 3 chooser actions; distinct = distinct digest of "
        "the (event kind, actor) sequence"
    )
    assumptions = [
        "whole-frame delivery (chunking is C03's concern)",
        "the reference receiver accepts either reaction where FIX/the property is silent (Reset-mode SequenceReset numbered off, GapFill with NewSeqNo <= expected)",
        "the history ends at the first frame on which the receiver drops the session (C11's concern)",
    ]

    def make_config(self, seed, tier, index=0):
        return inbound.make_config(seed, tier)

    def make_sim(self, cfg, trace=None):
        return inbound.InboundSim(cfg, trace)


CHECK = C04()
