"""C07 -- no application message lost, duplicated or reordered across connection loss."""
from ..families import pair
from .base import SimCheck


class C07(SimCheck):
    ID = "C07"
    LEVEL = "exploration"
    QUICK_RUNS = 6000
    THOROUGH_RUNS = 150000
    rule = (
        "one evaluation = one seeded simulated run of AsyncFIXClient<->AsyncFIXDummyServer (both real, real "
        "journals) under a chooser-decided schedule of application sends, frame deliveries, back-pressure, "
        "hook suspensions, connect refusals and up to 4 (quick) / 10 (thorough) connection breaks "
        "(EOF / ConnectionResetError / BrokenPipeError / TimeoutError per end), followed by a fault-free settle "
        "1 run in 6 stalls application callbacks for 1.5-8 heartbeat intervals of simulated time (the hook returns by a timer, other tasks and the peer act underneath); "
        "phase in virtual time; non-trivial = at least one fault fired or >= 3 chooser actions; distinct = "
        "distinct digest of the run's (event kind, actor) sequence"
    )
    assumptions = [
        "SimTransport models a TCP stream: no loss/duplication/reordering inside a live connection; a break drops everything in flight",
        "breaks happen at write (frame) boundaries, as the property states",
        "liveness bound judged only after faults stop: 6.5 x heartbeat + 8 s of virtual time",
        "sampling, not exhaustive enumeration of the bounded space named in the property",
    ]

    def make_config(self, seed, tier, index=0):
        cfg = pair.make_config(seed, tier)
        # stalled application callbacks (1 run in 6): a hook that returns only after seconds of simulated time, while
        # the peer reconnects, logs on and asks for resends underneath the suspended task
        import random

        rs = random.Random(seed ^ 0xC0757)
        if rs.random() < 1 / 6:
            cfg.update(p_hook=max(cfg["p_hook"], 0.3), p_hook_stall=0.3, hook_stall_s=rs.choice([1.5, 4.0, 8.0]) * cfg["hb"],
                       max_breaks=max(cfg["max_breaks"], 1), profile="stalled_hooks")
            if rs.random() < 0.5:
                # the hooks of a disconnect in particular (a watchdog's disconnect of a half-open connection is
                # still inside the application's callback when the next connection is up and recovering)
                cfg.update(stall_hooks=["on_disconnect", "on_state_change"], p_hook_stall=0.6, half_open=True,
                           hb=rs.choice([1, 2]), max_breaks=max(cfg["max_breaks"], 2))
                cfg["hook_stall_s"] = rs.choice([4.0, 8.0, 12.0]) * cfg["hb"]
                cfg["settle_s"] = max(cfg["settle_s"], 8.0 * cfg["hb"] + 14.0)
        return cfg

    def make_sim(self, cfg, trace=None):
        return pair.PairSim(cfg, trace)


CHECK = C07()
