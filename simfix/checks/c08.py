"""C08 -- the journal survives a process crash at any point."""
from ..families import journal
from .c13 import JournalCheck


class C08(JournalCheck):
    ID = "C08"
    LEVEL = "fault_enumeration"
    QUICK_RUNS = 30000
    THOROUGH_RUNS = 450000
    max_reports = 6
    rule = (
        "one run = one seeded history of 3..12 (quick) / 3..25 (thorough) journal operations (create_or_load incl. "
        "mirrored CompIDs, persist_msg IN/OUT incl. duplicates, set_seq_num in every argument shape, reset, reads, "
        "close + reopen) on a real file-backed Journaler, bracketed by the initial open and a final normal close; "
        "one evaluation = one crash point of that history (before/after every SQL statement and every commit, all of "
        "them; a seeded sample of crash_cap=128 (quick) / 256 (thorough) only if a history had more, which 12 / 25 operations of at most 8 boundaries each cannot reach) or one normal close: the file image at "
        "that instant is reopened by a fresh Journaler and its complete observable content must equal the model "
        "after k or k+1 completed operations (exactly k before the first and exactly k+1 after the last "
        "statement/commit of an operation, exactly k after a normal close); non-trivial = history has >= 3 mutating "
        "operations; distinct = distinct sequence of (operation kind, direction)"
    )
    assumptions = [
        "crash = abrupt process exit: the file image (main db + -journal/-wal/-shm side files) at a statement/commit boundary is what survives; "
        "kernel page cache survives, locks do not. NOT power loss: lost fsync / torn pages are out of scope, SQLite's atomic commit is trusted",
        "crash points are the boundaries of Cursor.execute and Connection.commit calls; instants inside one SQLite call are not enumerated",
        "byte-identical file images are reopened once and the verdict reused for every crash point that has the same image",
        "the model is the intended semantics: an operation that returned is durable (so today's uncommitted set_seq_num is reported)",
        "a run stops at its first violation; half of the runs (cfg closes_first) evaluate their normal-close checkpoints before their "
        "crash points so that the normal-close sentence of the property is not masked by an earlier crash point",
        "avoidance knob (DESIGN 5): 30% of runs generate no set_seq_num/reset so the space behind that finding stays explored",
        "thorough tier: 20 (history, crash point) pairs are re-executed in a forked child that os._exit(9)s at the boundary and "
        "compared with the snapshot (validates the crash model; disagreement is a harness error)",
        "histories are sampled; crash points per history are enumerated",
    ]
    components = {
        "real": [
            "asyncfix.journaler.Journaler (all of journaler.py), FIXSession, MessageDirection (working tree, unmodified)",
            "SQLite engine via Python's sqlite3: real connections, real rollback journal, real hot-journal recovery on reopen",
            "a real database file per run on tmpfs (/dev/shm); snapshots reopened through the unproxied sqlite3 module",
            "os.fork + os._exit(9) for the real-kill cross-validation (thorough tier)",
        ],
        "stub": [
            "asyncfix.journaler.sqlite3 module global -> shim (connect + IntegrityError, rest delegated) returning a connection/cursor "
            "proxy that calls the recorder before and after execute() and commit() and otherwise forwards to the real objects",
            "crash -> copy of the database file and its side files taken at the boundary (process-crash semantics, not power loss)",
            "reference model: dict {(pair, direction, seq): bytes} plus two counters per pair",
        ],
    }

    def _run(self, cfg, ops, crash, search):
        return journal.run_c08(cfg, ops, crash=crash, do_real_kill=bool(search and cfg.get("real_kill")))

    def _sample(self, seed, ops, res):
        return dict(seed=seed, ops=ops, crash_points=res.get("n_crash_points"), checked=res.get("evaluations"))


CHECK = C08()
