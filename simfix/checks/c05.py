"""C05 -- outbound messages are numbered consecutively and journaled under that number."""
from ..families import outbound
from .base import SimCheck


class C05(SimCheck):
    ID = "C05"
    LEVEL = "exploration"
    QUICK_RUNS = 12000
    THOROUGH_RUNS = 300000
    rule = (
        "one evaluation = one simulated session of a real endpoint (either role; starting outbound counter 1, 2, 7, 100, "
        "2**31 or 10**12, optionally with journal rows below it; auto-Logon on or off) against a well-behaved scripted peer "
        "over a fault-free transport with chooser-driven back-pressure and chunking: 1..30 (quick) / 1..60 (thorough) "
        "sequential send attempts drawn from {application D/8/custom, Heartbeat, Logon, Logout, TestRequest via send_msg, "
        "send_test_req, ResendRequest} in whatever connection state the endpoint is in (incl. disconnected and pre-logon "
        "states in half of the runs), interleaved with up to 10 / 25 peer stimuli that make the library send on its own "
        "(TestRequest, gap -> ResendRequest, ResendRequest -> replay, wrong TestReqID -> Logout, Logout, watchdog); judged "
        "after every completed send and at the end; non-trivial = >= 3 chooser actions; distinct = distinct digest of the "
        "(event kind, actor) sequence"
    )
    assumptions = [
        "frames that carry their own number (PossDupFlag=Y, SequenceReset) are not 'new' and are excluded from the numbering clause",
        "a refused send = send_msg/send_test_req raised FIXConnectionError; other exceptions (e.g. a drain failing because the "
        "library itself closed the transport) are recorded as probes",
        "transport is fault-free (no breaks): crashes are C09's, concurrency of several senders C14's",
    ]

    def make_config(self, seed, tier, index=0):
        return outbound.make_config(seed, tier)

    def make_sim(self, cfg, trace=None):
        return outbound.OutboundSim(cfg, trace)


CHECK = C05()
