"""C11 -- nothing passes to or from the application outside an established session."""
from ..families import gate
from .base import SimCheck


class C11(SimCheck):
    ID = "C11"
    LEVEL = "exploration"
    QUICK_RUNS = 20000
    THOROUGH_RUNS = 400000
    max_reports = 6
    rule = (
        "one evaluation = one simulated session of a real endpoint (role initiator / acceptor, seeded counters, heartbeat 1 s .. "
        "1000 s) brought by a prefix to one of: connected before any Logon, Logon sent and unanswered, ACTIVE, awaiting a resend; "
        "then 1..8 (quick) / 1..20 (thorough) stimuli, one at a time at quiescent points: a peer frame of type {Logon, Heartbeat, "
        "TestRequest, ResendRequest, GapFill, Reset, Logout, application} x defect {none, wrong BeginString, SenderCompID wrong / "
        "missing, TargetCompID wrong / missing, CompIDs swapped, MsgSeqNum missing / below / above expectation} x PossDup; a local "
        "send of {application, Heartbeat, Logon, Logout, TestRequest, ResendRequest, SequenceReset}; an application-initiated "
        "disconnect (with / without Logout text); a peer-side close; optionally a second stimulus overlapping the first; "
        "back-pressure on drain and suspension of on_state_change / on_message / on_logon / on_logout / on_disconnect / "
        "on_connect / should_replay let the heartbeat task, the reader task and application tasks overlap inside disconnect(); "
        "1 run in 4 (short heartbeat) stalls callbacks for 1.5-8 intervals of simulated time; 1 run in 10 is the scenario 'a resend reply in "
        "progress when the session ends' over a pre-filled outbound journal (sharp variant: acceptor, an application disconnect and the "
        "peer's reconnect arrive while should_replay() is parked); gate invariants "
        "are evaluated at every callback and every transport write, a per-stimulus judgement when the stimulus ran alone; "
        "non-trivial = >= 3 chooser actions or a fault; distinct = distinct digest of the (event kind, actor) sequence"
    )
    assumptions = [
        "'Logon exchange completed' is decided by the reference: the endpoint wrote a Logon on this connection and decoded a Logon "
        "with correct BeginString / CompIDs and a MsgSeqNum not below its expectation",
        "before the exchange completes Logon and Logout themselves are exempt from 'not acted upon'; a silent counter advance in that window is a probe",
        "'too-low => disconnected' is applied only to frames without PossDupFlag=Y, not SequenceReset, outside resend recovery",
        "a Logout stating the reason is demanded only for MsgSeqNum defects under correct CompIDs on an established session",
        "wrong BeginString: the frame must be invisible (no callback, no counter change, no reply); the connection may stay up",
        "a write attempted after the disconnect that asyncio drops on the closed transport is a probe, a write that reaches a transport is a violation",
        "sampling, not the exhaustive enumeration named in the property",
    ]

    def make_config(self, seed, tier, index=0):
        return gate.make_config(seed, tier)

    def make_sim(self, cfg, trace=None):
        return gate.GateSim(cfg, trace)


CHECK = C11()
