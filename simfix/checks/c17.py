"""C17 -- an order object converges to the exchange's view of the order."""
from ..families import order
from .base import SimCheck

COMPONENTS_ORDER = {
    "real": [
        "asyncfix.protocol.order_single.FIXNewOrderSingle (imported from the tree under test, unmodified)",
        "asyncfix.message.FIXMessage (requests and reports travel as FIXMessage objects)",
    ],
    "stub": [
        "exchange -> RefExchange, an executable model of the FIX 4.4 order state change matrices A/B/C "
        "(cross-checked by selftest_matrices() against the scenarios of tests/test_protocol_order_single.py)",
        "session/transport -> two in-memory FIFO queues; the chooser decides when each side acts and when the "
        "next message of either queue is delivered",
    ],
}


class C17(SimCheck):
    ID = "C17"
    LEVEL = "exploration"
    QUICK_RUNS = 200_000
    THOROUGH_RUNS = 3_000_000
    max_reports = 8
    minimise_budget_s = 10.0
    components = COMPONENTS_ORDER
    rule = (
        "one evaluation = one seeded run of a real FIXNewOrderSingle against RefExchange over two FIFO queues: "
        "<= 30 chooser actions (client new / cancel / replace when the order permits it; exchange handles the next "
        "request with a recorded decision pend?/accept|reject|hold, resolves a held request, fills partially or "
        "fully, expires, suspends, resumes, cancels unsolicited, rejects an acknowledged order; deliver next report) "
        "followed by a deterministic settle phase to quiescence; every-step clauses (status is an FOrdStatus member, "
        "<= 1 request outstanding, can_X() true => X_req() builds with a fresh 11 and 41 = live id) after every "
        "touch of the order object, convergence clauses at every quiescent point; non-trivial = >= 4 actions and "
        "the order was acknowledged; distinct = distinct digest of the action-kind sequence"
    )
    assumptions = [
        "RefExchange is trusted: it does only what the FIX 4.4 matrices A/B/C show (+ suspend/resume, unsolicited "
        "cancel, reject of an acknowledged zero-filled order, which the repo's own tests feed); a replace of a "
        "suspended order is always rejected, a suspended order neither trades nor expires, while a request is held "
        "pending only fills happen",
        "each direction is FIFO (a FIX session delivers in order); the two directions are independent",
        "40% of the runs never reject a cancel/replace (avoid_rejects) so that the space behind the cancel-reject "
        "defect is explored; in those runs the generator also withholds requests the exchange could only reject",
        "3% of the runs use a root with an embedded newline whose first line ends in --<n> (exotic_root)",
        "sampling, not exhaustive enumeration of the bounded interleaving space",
    ]
    _selftested = False

    def chunk(self, tier):
        return 500

    def wall_limit(self, tier):
        return 600 if tier == "quick" else 4 * 3600

    def make_config(self, seed, tier, index=0):
        return order.make_config(seed, tier, half="c17")

    def _selftest(self):
        if not C17._selftested:
            order.selftest_matrices()  # an AssertionError here is a harness error (exit 2)
            C17._selftested = True

    def run_seed(self, seed, tier, index=0, want_sample=False):
        self._selftest()
        cfg = self.make_config(seed, tier, index)
        return order.OrderMachine(cfg).run(want_sample)

    def replay(self, cfg, trace):
        self._selftest()
        return order.OrderMachine(cfg, trace or {"actions": []}).run()

    def show_replay(self, cfg, trace, n):
        m = order.OrderMachine(cfg, trace or {"actions": []})
        m.run()
        print("   config:", {k: v for k, v in cfg.items() if k != "weights"})
        order.show(m, n)


CHECK = C17()
