"""C20 -- the bundled test helper fabricates valid, consistent counterparty traffic.

Two halves share this check; the run seed decides which one a run exercises:
  (a) order-level: C17's machine in lock-step, reports fabricated by FIXTester
      (families/order.py: C20aMachine)                                  -- implemented
  (b) session-level: differential simulation helper-acceptor vs real acceptor
      (families/helperdiff.py: HelperDiffSim)                           -- implemented
"""
from ..families import helperdiff, order
from .base import COMPONENTS_SESSION, SimCheck
from .c17 import COMPONENTS_ORDER

HALVES = ("a", "b")


class C20(SimCheck):
    ID = "C20"
    LEVEL = "exploration"
    QUICK_RUNS = 60_000
    THOROUGH_RUNS = 900_000
    max_reports = 8
    minimise_budget_s = 15.0
    components = {
        "real": COMPONENTS_ORDER["real"] + [
            "asyncfix.fix_tester.FIXTester (report / request fabrication with a schema)",
            "asyncfix.protocol.schema.FIXSchema over tests/FIX44.xml (trusted as validator)",
        ],
        "real_half_b": COMPONENTS_SESSION["real"] + ["asyncfix.fix_tester.FIXTester simulated acceptor (the object under test)"],
        "stub": [
            "half (b): event loop/clock -> SimLoop, TCP -> SimNet with zero latency; the script driver",
            "what happens to the order -> RefExchange (model of the FIX 4.4 order state matrices); the helper only "
            "turns each decision into a message",
        ],
    }
    rule = (
        "half (a), close to plain state-space walking: one evaluation = one seeded lock-step run (<= 30 actions) in "
        "which RefExchange decides what happens to the order and FIXTester.fix_exec_report_msg / "
        "fix_cxlrep_reject_msg / fix_cxl_request / fix_rep_request fabricate every message over seeded equivalent "
        "argument spellings (explicit vs defaulted quantities, with/without OrigClOrdID, old/new id for fills while "
        "pending, AvgPx); every fabricated message is validated against FIX44.xml, checked for CumQty+LeavesQty <= "
        "OrderQty, LeavesQty = 0 when finished, fresh ExecID, stable OrderID, and fed to the order object; an "
        "AssertionError raised by the helper's own statements puts the arguments outside its domain (probe, run "
        "ends); non-trivial = >= 4 actions and the order was acknowledged. half (b), odd run indices: one evaluation = one "
        "seeded clean session script (Logon, then 1..24 (quick) / 1..60 (thorough) steps of initiator/acceptor application "
        "message, TestRequest either way, Heartbeat either way, optionally a final Logout from either side) executed step by "
        "step in two worlds under one virtual clock -- the initiator class against a real AsyncFIXDummyServer over SimNet, and "
        "the same class against FIXTester's simulated acceptor -- and compared after every step; non-trivial = script has >= 3 steps"
    )
    assumptions = [
        "FIXSchema is trusted as validator (C15 is not claimed)",
        "RefExchange is trusted (see C17); argument combinations are those a matrix-following exchange produces, "
        "not arbitrary tuples",
        "40% of the runs never reject a cancel/replace (avoid_rejects); 50% do not compare the OrderID of an "
        "OrderCancelReject (lenient_reject_orderid), so that what lies behind those two findings is still explored",
        "half (b): both worlds share one virtual clock and execute each script step at the same instant; world 1 has zero network latency; "
        "compared after every step: encoded frames of initiator and acceptor (field-wise without 52/9/10), initiator counters, "
        "initiator connection_state, initiator on_message deliveries; acceptor state and state sequences are probes; on_connect/on_disconnect are not compared",
        "half (b) scripts are clean: consecutive numbers, no gaps, Logout (if any) is the last step; starting counters are seeded and non-symmetric in 60% of the runs",
    ]

    def chunk(self, tier):
        return 500

    def wall_limit(self, tier):
        return 600 if tier == "quick" else 4 * 3600

    # -- sub-family dispatch --------------------------------------------------
    def half_for(self, seed, index=0):
        return HALVES[index % len(HALVES)]

    def make_config(self, seed, tier, index=0):
        half = self.half_for(seed, index)
        if half == "a":
            return order.make_config(seed, tier, half="c20a")
        return helperdiff.make_config(seed, tier)

    def machine(self, cfg, trace=None):
        if cfg.get("half", "c20a") == "c20a":
            return order.C20aMachine(cfg, trace)
        raise NotImplementedError(cfg.get("half"))

    def run_seed(self, seed, tier, index=0, want_sample=False):
        cfg = self.make_config(seed, tier, index)
        if cfg.get("half") == "c20b":
            sim = helperdiff.HelperDiffSim(cfg)
            res = sim.run()
            res["config"] = cfg
            res["nontrivial"] = len(cfg["script"]) >= 3
            if res["violation"] is None:
                res["trace"] = None
            if want_sample:
                res["sample"] = dict(seed=seed, **sim.sample())
            return res
        return self.machine(cfg).run(want_sample)

    def replay(self, cfg, trace):
        if cfg.get("half") == "c20b":
            res = helperdiff.HelperDiffSim(cfg, trace).run()
            res["config"] = cfg
            return res
        return self.machine(cfg, trace or {"actions": []}).run()

    def show_replay(self, cfg, trace, n):
        if cfg.get("half") == "c20b":
            sim = helperdiff.HelperDiffSim(cfg, trace)
            sim.run()
            print("   script:", cfg["script"], "counters:", cfg["i_out"], cfg["i_in"])
            for row in sim.log[:n]:
                print("   ", row)
            for ev in sim.hist[:n]:
                print("   ", repr(ev)[:200])
            return
        m = self.machine(cfg, trace or {"actions": []})
        m.run()
        print("   config:", {k: v for k, v in cfg.items() if k != "weights"})
        order.show(m, n)


CHECK = C20()
