"""C12 -- the heartbeat watchdog detects dead peers and spares live ones."""
from ..families import watchdog
from .base import SimCheck


class C12(SimCheck):
    ID = "C12"
    LEVEL = "exploration"
    QUICK_RUNS = 12000
    THOROUGH_RUNS = 250000
    rule = (
        "one evaluation = one simulated session in virtual time: a real endpoint (either role, real heartbeat_timer_task and "
        "reader task) with heartbeat interval 1..120 s against a scripted peer whose arrival-time law is drawn per run -- silent "
        "from t0; periodic traffic at 0.3..1.5 x interval (+- jitter) that may stop; bursts then silence; answers to every "
        "TestRequest delayed by 0..2.5 intervals (incl. just inside / outside 2 x interval); answers with a wrong or without a "
        "TestReqID; periodic peer TestRequests; unsolicited Heartbeats with an id -- for 4..6 (quick) / 6..12 (thorough) "
        "intervals plus 3 intervals of tail, with a seeded phase of the 1 s watchdog tick; zero network latency; judged on "
        "the prelude connection ends by a peer close, a transport error (reset / pipe / timeout) or an application Logout under back-pressure; "
        "time-stamped frames, arrivals and state changes; non-trivial = the session became ACTIVE; distinct = distinct digest "
        "of the (event kind, actor) sequence"
    )
    assumptions = [
        "bands, because ticks are 1 s and TestReqIDs are truncated seconds: silence => TestRequest within interval+2 s; dead peer => "
        "disconnected within 3 x interval + 2 s; a peer whose gaps are <= interval-2 s or that answers every TestRequest within "
        "2 x interval - 2 s is never disconnected; between the bands either outcome is accepted",
        "no clock jumps or skew are injected (the property quantifies over arrival patterns and tick phase)",
        "the peer numbers its frames consecutively and never sends Logout: every disconnect in a run is the watchdog's or the wrong-TestReqID rule's",
    ]

    def make_config(self, seed, tier, index=0):
        return watchdog.make_config(seed, tier)

    def make_sim(self, cfg, trace=None):
        return watchdog.WatchdogSim(cfg, trace)

    def nontrivial(self, res):
        return res.get("sim_seconds", 0) > 3


CHECK = C12()
