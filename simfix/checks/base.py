"""Base class of a check built on a Sim family."""

COMPONENTS_SESSION = {
    "real": [
        "asyncfix (all modules, imported from /repo working tree, unmodified)",
        "asyncio tasks/futures/timers/sleep/wait_for (CPython)",
        "asyncio.StreamReader / StreamWriter / StreamReaderProtocol (flow control, EOF, wait_closed)",
        "sqlite3 engine (in-memory or file on tmpfs)",
    ],
    "stub": [
        "event loop selector + clock -> SimLoop (virtual time, FIFO ready queue, choice points at iteration boundaries)",
        "TCP -> SimNet/SimTransport (delivery, chunking, back-pressure, breaks decided by the chooser)",
        "time.time()/datetime.utcnow() inside asyncfix -> virtual clock",
        "application hooks -> recording subclasses that may suspend on simulator-owned futures",
    ],
}


class SimCheck:
    ID = "C00"
    LEVEL = "exploration"
    rule = ""
    assumptions = []
    components = COMPONENTS_SESSION
    max_reports = 4
    minimise_budget_s = 25.0
    QUICK_RUNS = 1000
    THOROUGH_RUNS = 20000

    def runs(self, tier):
        return self.QUICK_RUNS if tier == "quick" else self.THOROUGH_RUNS

    def chunk(self, tier):
        return 50

    def wall_limit(self, tier):
        return 900 if tier == "quick" else 6 * 3600

    # -- to implement ------------------------------------------------------
    def make_config(self, seed, tier, index=0):
        raise NotImplementedError

    def make_sim(self, cfg, trace=None):
        raise NotImplementedError

    # -- generic -------------------------------------------------------------
    def nontrivial(self, res):
        return sum((res.get("faults") or {}).values()) > 0 or res.get("actions", 0) >= 3

    def run_seed(self, seed, tier, index=0, want_sample=False):
        cfg = self.make_config(seed, tier, index)
        sim = self.make_sim(cfg)
        sim.prop_id = self.ID
        res = sim.run()
        res["config"] = cfg
        res["nontrivial"] = self.nontrivial(res)
        if res["violation"] is None:
            res["trace"] = None
        if want_sample:
            try:
                res["sample"] = dict(seed=seed, **sim.sample())
            except Exception as e:  # pragma: no cover
                res["sample"] = dict(seed=seed, error=repr(e))
        return res

    def replay(self, cfg, trace):
        import gc

        sim = self.make_sim(cfg, trace)
        sim.prop_id = self.ID
        res = sim.run()
        res["config"] = cfg
        del sim
        gc.collect()  # sqlite objects must be finalised in the thread that made them
        return res

    def show_replay(self, cfg, trace, n):
        sim = self.make_sim(cfg, trace)
        sim.prop_id = self.ID
        res = sim.run()
        print("    stop:", res["stop_reason"], "t=%.2f" % res["sim_seconds"], "boundaries:", res["boundaries"],
              "handles:", res["handles"], "notes:", res["notes"], "phase:", sim.phase)
        print("    trace:", trace)
        for ev in sim.hist[:n]:
            print("   ", repr(ev)[:260])
        for l in sim.lib_logs[:12]:
            print("    LIBLOG", l)
        print("    dead tasks:", getattr(sim, "dead", None))
