"""C14 -- concurrent senders never corrupt the outbound sequence."""
from ..families import senders
from .base import SimCheck


class C14(SimCheck):
    ID = "C14"
    LEVEL = "exploration"
    QUICK_RUNS = 12000
    THOROUGH_RUNS = 300000
    rule = (
        "one evaluation = one simulated session of a real endpoint (either role, seeded starting counters, heartbeat "
        "interval 1..3 s or 30 s) with 2-3 application sender tasks of 1..6 (quick) / 1..10 (thorough) sends each, its "
        "own heartbeat task and its reader task fed by a scripted peer (Logon, TestRequests, ResendRequests over seeded "
        "ranges, application frames, sequence gaps that make the reader send a ResendRequest); the chooser decides every "
        "back-pressure pause/resume of drain (FIFO wake-up is asyncio's own), every suspension and completion of the awaited "
        "hooks should_replay / on_state_change / on_message / on_logon, every delivery and every start of a send; judged on "
        "the wire order of all frames, the exceptions seen by senders and the library log, the outbound journal and the "
        "stored counter after the tasks finished; non-trivial = >= 3 chooser actions or a fault (pause / hook suspension) "
        "fired; distinct = distinct digest of the (event kind, actor) sequence"
    )
    assumptions = [
        "the ready queue is never permuted (asyncio FIFO): the schedule space is when external events happen, which is what a production loop permits",
        "sampling with the interleaving count reported, not the exhaustive bounded enumeration named in the property",
        "journalling of retransmissions and gap fills is not demanded",
        "no connection breaks in this family (C07/C09 own them); a watchdog or Logout disconnect ends the interesting part of a run",
    ]

    def make_config(self, seed, tier, index=0):
        return senders.make_config(seed, tier)

    def make_sim(self, cfg, trace=None):
        return senders.SendersSim(cfg, trace)


CHECK = C14()
