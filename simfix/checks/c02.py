"""C02 -- every frame put on the wire is a well-formed FIX frame."""
from ..families import wire
from .base import SimCheck


class C02(SimCheck):
    ID = "C02"
    LEVEL = "exploration"
    QUICK_RUNS = 8000
    THOROUGH_RUNS = 200000
    rule = (
        "one evaluation = one simulated run of a host family with the wire oracle layered on top: pair (two real endpoints "
        "under breaks / back-pressure / reconnects; application payloads with repeating groups and field values drawn from "
        "ASCII, Latin-1, BMP or astral alphabets, 0..9000 characters), senders (C14), outbound (C05: every send type in every "
        "state), resend (C06: replays and gap fills over seeded journals) or gate (C11: Logouts with reasons, defective input); "
        "every Codec.encode return value (encoded to bytes the way send_msg does) must be one well-formed frame, and the bytes "
        "each real endpoint wrote on each connection must be a pure concatenation of well-formed frames (8=<BeginString>|9=<n>|35=... "
        "|10=<3 digits>|, BodyLength = byte count between the BodyLength field and the CheckSum field, CheckSum = byte sum mod 256) "
        "according to an independent byte-level framer; the host family's own oracle is a foreign probe; non-trivial = >= 3 chooser "
        "actions or a fault; distinct = distinct digest of the (event kind, actor) sequence"
    )
    assumptions = [
        "the stream written per connection is judged, not 'one write = one frame' (that is a probe), so a refactor that splits or coalesces writes stays silent",
        "only the listed framing facts are checked; no opinion on field order beyond 8/9/35/10 or on empty values",
        "the refusal clause is observed as: when send_msg / encode raises, nothing malformed reached the transport (the stream clause covers it)",
    ]

    def make_config(self, seed, tier, index=0):
        return wire.make_config(seed, tier)

    def make_sim(self, cfg, trace=None):
        return wire.make_sim(cfg, trace)


CHECK = C02()
