"""SimNet / SimTransport: the only network the system under test sees.

Real asyncio.StreamReader / StreamReaderProtocol / StreamWriter run on top of a
SimTransport; the simulator decides when bytes are delivered, how they are
chunked, when a writer is paused/resumed and when/how a connection breaks.
TCP semantics kept: bytes of a live connection are never lost, duplicated or
reordered; a break drops everything in flight in both directions.
"""
import asyncio
import collections

from .loop import SimLivelock


class SimStreamReader(asyncio.StreamReader):
    """StreamReader that only counts: detects a caller spinning on a stored error."""

    SPIN_LIMIT = 200

    def __init__(self, *a, sim=None, label="?", **kw):
        super().__init__(*a, **kw)
        self._sim = sim
        self._label = label
        self._spin_iter = -1
        self._spin = 0

    async def read(self, n=-1):
        try:
            # short reads (buggify): the bytes arrive so slowly / the reader is so quick that a read never
            # returns more than `read_cap` bytes, however the chooser grouped the deliveries
            cap = self._sim.cfg.get("read_cap", 0) if self._sim is not None else 0
            if cap and (n < 0 or n > cap):
                n = cap
                self._sim.stat("short_reads")
            data = await super().read(n)
            if not data:
                # end of stream: a caller that comes back for it again and again inside ONE loop iteration never
                # yields - no other task, no timer, not even this simulator gets to run any more
                sim = self._sim
                it = sim.loop.n_iters if sim is not None else -2
                if it == self._spin_iter:
                    self._spin += 1
                    if self._spin >= self.SPIN_LIMIT:
                        sim.rec("livelock", self._label, "EOF")
                        sim.probe("reader_spins_on_end_of_stream")
                        raise SimLivelock(f"{self._label}: read() returned end-of-stream {self._spin} times within one loop iteration")
                else:
                    self._spin_iter = it
                    self._spin = 1
            return data
        except BaseException as e:
            if isinstance(e, (asyncio.CancelledError, GeneratorExit, SimLivelock)):
                raise
            sim = self._sim
            it = sim.loop.n_iters
            if it == self._spin_iter:
                self._spin += 1
                if self._spin >= self.SPIN_LIMIT:
                    sim.rec("livelock", self._label, type(e).__name__)
                    sim.probe("reader_spins_on_stored_error")
                    raise SimLivelock(
                        f"{self._label}: read() raised {type(e).__name__} "
                        f"{self._spin} times within one loop iteration"
                    )
            else:
                self._spin_iter = it
                self._spin = 1
            raise


class SimTransport(asyncio.Transport):
    def __init__(self, sim, conn, side, protocol, label):
        super().__init__(extra={"peername": ("sim-" + label, conn.cid)})
        self.sim = sim
        self.conn = conn
        self.side = side  # 0 = connector, 1 = acceptor
        self.protocol = protocol
        self.label = label  # endpoint name this transport belongs to
        self._closing = False
        self._conn_lost = 0
        self._lost_called = False
        self.paused = False
        self.n_writes = 0
        self.read_paused = False
        self.dead = False  # owning process was killed: nothing it does reaches the network any more

    # -- asyncio.Transport API -------------------------------------------
    def is_closing(self):
        return self._closing

    def get_write_buffer_size(self):
        return 0

    def get_write_buffer_limits(self):
        return (0, 0)

    def set_write_buffer_limits(self, high=None, low=None):
        pass

    def pause_reading(self):
        self.read_paused = True

    def resume_reading(self):
        self.read_paused = False

    def is_reading(self):
        return not self.read_paused and not self._closing

    def can_write_eof(self):
        return False

    def set_protocol(self, protocol):
        self.protocol = protocol

    def get_protocol(self):
        return self.protocol

    def write(self, data):
        data = bytes(data)
        self.n_writes += 1
        sim = self.sim
        if self._conn_lost or self._closing:
            # asyncio drops writes on a closing/lost transport
            self._conn_lost += 1
            sim.on_write(self, data, dropped=True)
            return
        sim.on_write(self, data, dropped=False)
        if not data or self.dead:
            return
        if self.conn.broken or self.conn.closed[1 - self.side]:
            # peer gone (not yet noticed here): bytes go nowhere
            sim.stat("bytes_into_dead_connection", len(data))
            return
        self.conn.q[self.side].append(data)
        self.conn.inflight[self.side] += len(data)
        if not self.paused and sim.decide_pause(self):
            self.paused = True
            sim.rec("pause", self.label, self.conn.cid)
            sim.fault("backpressure_pause")
            self.protocol.pause_writing()
        sim.after_write(self)

    def writelines(self, lines):
        self.write(b"".join(lines))

    def close(self):
        if self._closing:
            return
        self._closing = True
        self._conn_lost += 1
        self.sim.rec("tr_close", self.label, self.conn.cid)
        self.conn.closed[self.side] = True
        delay = self.sim.decide_slow_close(self)
        if delay:
            # buggify: the transport takes a while to close, wait_closed() completes late (legal: a close
            # handshake is not instantaneous), other tasks run in the meantime
            self.sim.fault("slow_close")
            self.sim.loop.call_later(delay, self._call_connection_lost, None)
        else:
            self.sim.loop.call_soon(self._call_connection_lost, None)

    def abort(self):
        self.close()

    def _call_connection_lost(self, exc):
        if self._lost_called:
            return
        self._lost_called = True
        self.paused = False
        try:
            self.protocol.connection_lost(exc)
        finally:
            self.sim.on_transport_lost(self, exc)

    # -- simulator side ----------------------------------------------------
    def sim_resume(self):
        if self.paused and not self._lost_called:
            self.paused = False
            self.sim.rec("resume", self.label, self.conn.cid)
            self.protocol.resume_writing()

    def sim_data(self, data):
        if self._lost_called or self._closing:
            self.sim.stat("bytes_delivered_to_closed_end", len(data))
            return
        self.sim.rec("chunk", self.label, self.conn.cid, len(data))
        self.protocol.data_received(data)

    def sim_eof(self):
        if self._lost_called or self._closing:
            return
        self.sim.rec("eof", self.label, self.conn.cid)
        keep = self.protocol.eof_received()
        if not keep:
            self.close()

    def sim_error(self, exc):
        """Fatal transport error as asyncio reports it: connection_lost(exc)."""
        if self._lost_called:
            return
        self._closing = True
        self._conn_lost += 1
        self.conn.closed[self.side] = True
        self.sim.rec("tr_error", self.label, self.conn.cid, type(exc).__name__)
        self._call_connection_lost(exc)


class SimConn:
    """One simulated TCP connection: two transports, two byte queues."""

    def __init__(self, sim, cid):
        self.sim = sim
        self.cid = cid
        self.tr = [None, None]
        self.q = [collections.deque(), collections.deque()]  # q[i]: written by side i
        self.inflight = [0, 0]
        self.closed = [False, False]  # side i called close()/was errored
        self.eof_sent = [False, False]  # EOF of side i's close delivered to the other
        self.broken = False
        self.partitioned = False
        self.notify_pending = {}  # side -> kind (half-open breaks)

    def alive(self):
        return not self.broken and not (self.closed[0] and self.closed[1])

    def take(self, side, n):
        """Remove up to n bytes written by `side` (None = one whole write)."""
        q = self.q[side]
        if not q:
            return b""
        if n is None:
            data = q.popleft()
        else:
            out = bytearray()
            while q and len(out) < n:
                c = q[0]
                need = n - len(out)
                if len(c) <= need:
                    out += c
                    q.popleft()
                else:
                    out += c[:need]
                    q[0] = c[need:]
            data = bytes(out)
        self.inflight[side] -= len(data)
        return data

    def take_all(self, side):
        data = b"".join(self.q[side])
        self.q[side].clear()
        self.inflight[side] = 0
        return data

    def drop_inflight(self):
        n = self.inflight[0] + self.inflight[1]
        self.q[0].clear()
        self.q[1].clear()
        self.inflight = [0, 0]
        return n


class SimServer:
    def __init__(self, net, cb, host, port):
        self.net = net
        self.cb = cb
        self.key = (host, int(port))
        self.serving = True
        self._forever = None

    async def __aenter__(self):
        return self

    async def __aexit__(self, *exc):
        self.close()

    def is_serving(self):
        return self.serving

    def close(self):
        if self.serving:
            self.serving = False
            if self.net.listeners.get(self.key) is self:
                del self.net.listeners[self.key]
        if self._forever is not None and not self._forever.done():
            self._forever.cancel()

    async def wait_closed(self):
        return

    async def serve_forever(self):
        self._forever = self.net.sim.loop.create_future()
        try:
            await self._forever
        finally:
            self._forever = None


class SimNet:
    def __init__(self, sim):
        self.sim = sim
        self.listeners = {}
        self.conns = []
        self.owner_of_port = {}  # (host, port) -> endpoint label of the listener
        self.connector_of_port = {}  # (host, port) -> endpoint label of the connector
        self.n_connects = 0

    def register(self, host, port, listener_label, connector_label):
        self.owner_of_port[(host, int(port))] = listener_label
        self.connector_of_port[(host, int(port))] = connector_label

    # replacements for asyncio.open_connection / asyncio.start_server
    async def open_connection(self, host=None, port=None, **kw):
        sim = self.sim
        self.n_connects += 1
        label = self.connector_of_port.get((host, int(port)), "?")
        await asyncio.sleep(0)
        if sim.decide_refuse_connect(label, self.n_connects):
            sim.rec("connect_refused", label)
            sim.fault("connect_refused")
            raise ConnectionRefusedError(111, "Connect call failed (simulated)")
        srv = self.listeners.get((host, int(port)))
        if srv is None or not srv.serving:
            sim.rec("connect_nolistener", label)
            raise ConnectionRefusedError(111, "Connect call failed (no listener)")
        conn = SimConn(sim, len(self.conns))
        self.conns.append(conn)
        loop = sim.loop
        reader = SimStreamReader(limit=2**16, loop=loop, sim=sim, label=label)
        proto = asyncio.StreamReaderProtocol(reader, loop=loop)
        tr = SimTransport(sim, conn, 0, proto, label)
        conn.tr[0] = tr
        proto.connection_made(tr)
        writer = asyncio.StreamWriter(tr, proto, reader, loop)
        sim.rec("connected", label, conn.cid)
        srv_label = self.owner_of_port.get((host, int(port)), "srv")
        loop.call_soon(self._accept, srv, conn, srv_label)
        return reader, writer

    async def start_server(self, cb, host=None, port=None, **kw):
        srv = SimServer(self, cb, host, port)
        self.listeners[(host, int(port))] = srv
        return srv

    def connect_raw(self, host, port, protocol_factory, label):
        """Connector side for a scripted (non-library) peer: returns transport."""
        sim = self.sim
        srv = self.listeners.get((host, int(port)))
        if srv is None or not srv.serving:
            raise ConnectionRefusedError(111, "no listener")
        conn = SimConn(sim, len(self.conns))
        self.conns.append(conn)
        proto = protocol_factory()
        tr = SimTransport(sim, conn, 0, proto, label)
        conn.tr[0] = tr
        proto.connection_made(tr)
        srv_label = self.owner_of_port.get((host, int(port)), "srv")
        sim.rec("connected", label, conn.cid)
        sim.loop.call_soon(self._accept, srv, conn, srv_label)
        return tr

    def listen_raw(self, host, port, protocol_factory, label):
        """Acceptor side for a scripted peer: library client connects to it."""
        net = self

        class _RawServer:
            serving = True
            cb = None
            key = (host, int(port))

            def close(self_inner):
                self_inner.serving = False

        srv = _RawServer()
        srv.raw_factory = protocol_factory
        srv.raw_label = label
        self.listeners[(host, int(port))] = srv
        self.owner_of_port[(host, int(port))] = label
        return srv

    def _accept(self, srv, conn, srv_label):
        sim = self.sim
        loop = sim.loop
        if not getattr(srv, "serving", True):
            # the listener went away between connect() and accept (its process died / it was closed):
            # the kernel resets the half-established connection
            sim.rec("accept_reset", srv_label, conn.cid)
            conn.broken = True
            tr0 = conn.tr[0]
            if tr0 is not None and not tr0._lost_called:
                loop.call_soon(tr0.sim_error, ConnectionResetError(104, "Connection reset by peer (listener gone, simulated)"))
            return
        if getattr(srv, "raw_factory", None) is not None:
            proto = srv.raw_factory()
            tr = SimTransport(sim, conn, 1, proto, srv.raw_label)
            conn.tr[1] = tr
            sim.rec("accepted", srv.raw_label, conn.cid)
            proto.connection_made(tr)
            return
        reader = SimStreamReader(limit=2**16, loop=loop, sim=sim, label=srv_label)
        proto = asyncio.StreamReaderProtocol(reader, srv.cb, loop=loop)
        tr = SimTransport(sim, conn, 1, proto, srv_label)
        conn.tr[1] = tr
        sim.rec("accepted", srv_label, conn.cid)
        proto.connection_made(tr)
