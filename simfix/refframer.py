"""Independent byte-level FIX framer / encoder.

Shares no code and no str-vs-bytes assumption with asyncfix.codec.  Everything
here works on ``bytes``.  It is the "independent FIX parser" of C02 and the
eyes of every other oracle, and the frame factory of the scripted peer.
"""
SOH = b"\x01"
BEGIN = b"FIX.4.4"


class FrameError(Exception):
    pass


def checksum(data: bytes) -> int:
    return sum(data) % 256


def fields(frame: bytes):
    """[(tag bytes, value bytes)] of a frame (no validation beyond '=')."""
    out = []
    parts = frame.split(SOH)
    if parts and parts[-1] == b"":
        parts = parts[:-1]
    for p in parts:
        k, eq, v = p.partition(b"=")
        if not eq:
            raise FrameError(f"field without '=': {p!r}")
        out.append((k, v))
    return out


def fdict(frame: bytes):
    """First occurrence of each tag -> value (str keys/values, latin-1)."""
    d = {}
    for k, v in fields(frame):
        ks = k.decode("latin-1")
        if ks not in d:
            d[ks] = v.decode("latin-1")
    return d


def check_frame(frame: bytes, begin: bytes = BEGIN):
    """Return None if `frame` is exactly one well-formed FIX frame, else a reason."""
    head = b"8=" + begin + SOH + b"9="
    if not frame.startswith(head):
        return "does not start with 8=<BeginString>|9="
    i = len(head)
    j = frame.find(SOH, i)
    if j < 0:
        return "BodyLength unterminated"
    digits = frame[i:j]
    if not digits or not digits.isdigit() or len(digits) > 18:
        return f"BodyLength not numeric: {digits[:40]!r}"
    blen = int(digits)
    body_start = j + 1
    if not frame.startswith(b"35=", body_start):
        return "third field is not MsgType"
    body_end = body_start + blen
    trailer = frame[body_end:]
    if len(trailer) != 7 or not trailer.startswith(b"10=") or not trailer.endswith(SOH):
        return (
            f"BodyLength {blen} does not lead to a 7-byte CheckSum trailer"
            f" (frame {len(frame)} bytes, trailer {trailer[:12]!r})"
        )
    if body_end == 0 or frame[body_end - 1 : body_end] != SOH:
        return "no SOH before CheckSum"
    cks = trailer[3:6]
    if not cks.isdigit():
        return f"CheckSum not 3 digits: {cks!r}"
    want = checksum(frame[:body_end])
    if int(cks) != want:
        return f"CheckSum {cks!r} != {want:03d}"
    return None


def consistency(frame: bytes):
    """None if the frame's BodyLength and CheckSum are consistent with its bytes,
    else 'bodylength' / 'checksum' / 'shape' (independent of asyncfix.codec)."""
    if not frame.startswith(b"8=") or len(frame) < 20:
        return "shape"
    i = frame.find(SOH + b"9=")
    if i < 0:
        return "shape"
    j = frame.find(SOH, i + 1)
    digits = frame[i + 3 : j]
    if j < 0 or not digits.isdigit():
        return "bodylength"
    trailer = frame[-7:]
    if not (trailer.startswith(b"10=") and trailer.endswith(SOH) and trailer[3:6].isdigit()):
        return "shape"
    if frame[-8:-7] != SOH:
        return "shape"
    if int(trailer[3:6]) != checksum(frame[:-7]):
        return "checksum"
    if len(digits) > 18 or int(digits) != len(frame) - 7 - (j + 1):
        return "bodylength"  # (more digits than any frame is long - beyond what int() converts, too)
    return None


def split_stream(data: bytes, begin: bytes = BEGIN):
    """Split a byte stream that must be a pure concatenation of frames.

    Returns (frames, error, rest): `error` is None when every byte up to `rest`
    belongs to a well-formed frame; `rest` is a (possibly empty) incomplete tail.
    """
    frames = []
    i = 0
    n = len(data)
    head = b"8=" + begin + SOH + b"9="
    while i < n:
        if not data.startswith(head, i):
            if head.startswith(data[i:]):
                return frames, None, data[i:]
            return frames, f"offset {i}: no frame start: {data[i:i+24]!r}", data[i:]
        j = data.find(SOH, i + len(head))
        if j < 0:
            if n - i > len(head) + 9:
                return frames, f"offset {i}: BodyLength unterminated", data[i:]
            return frames, None, data[i:]
        digits = data[i + len(head) : j]
        if not digits.isdigit() or len(digits) > 18:
            return frames, f"offset {i}: BodyLength not numeric {digits[:40]!r}", data[i:]
        end = j + 1 + int(digits) + 7
        if end > n:
            # maybe incomplete -- but a wrong BodyLength also lands here; look for
            # an embedded frame start to tell the two apart
            k = data.find(head, i + 1)
            if k != -1:
                return frames, f"offset {i}: BodyLength {digits!r} overruns next frame", data[i:]
            return frames, None, data[i:]
        fr = data[i:end]
        why = check_frame(fr, begin)
        if why:
            return frames, f"offset {i}: {why}", data[i:]
        frames.append(fr)
        i = end
    return frames, None, b""


def scan_frames(data: bytes, begin: bytes = BEGIN):
    """Lenient scan: every well-formed frame found anywhere in `data`, in order."""
    frames = []
    head = b"8=" + begin + SOH + b"9="
    i = data.find(head)
    while i != -1:
        j = data.find(SOH, i + len(head))
        ok = False
        if j != -1:
            digits = data[i + len(head) : j]
            if digits.isdigit() and len(digits) <= 18:
                end = j + 1 + int(digits) + 7
                if end <= len(data) and check_frame(data[i:end], begin) is None:
                    frames.append(data[i:end])
                    i = data.find(head, end)
                    ok = True
        if not ok:
            i = data.find(head, i + 1)
    return frames


def build(
    msgtype,
    body=(),
    sender="S",
    target="T",
    seq=1,
    sending_time="20231114-22:13:20.000",
    begin: bytes = BEGIN,
    possdup=False,
    orig_sending_time=None,
    omit=(),
    body_len=None,
    cks=None,
    header_extra=(),
):
    """Reference encoder.  `body` is a sequence of (tag, value); everything is
    converted with str().encode('latin-1').  `omit` may name header tags to leave
    out; `body_len`/`cks` override the computed values (defect injection)."""

    def b(x):
        return x if isinstance(x, bytes) else str(x).encode("latin-1")

    parts = [(b"35", b(msgtype))]
    if "49" not in omit and sender is not None:
        parts.append((b"49", b(sender)))
    if "56" not in omit and target is not None:
        parts.append((b"56", b(target)))
    if "34" not in omit and seq is not None:
        parts.append((b"34", b(seq)))
    if "52" not in omit and sending_time is not None:
        parts.append((b"52", b(sending_time)))
    if possdup:
        parts.append((b"43", b"Y"))
        if orig_sending_time is not None:
            parts.append((b"122", b(orig_sending_time)))
    for k, v in header_extra:
        parts.append((b(k), b(v)))
    for k, v in body:
        parts.append((b(k), b(v)))
    payload = b"".join(k + b"=" + v + SOH for k, v in parts)
    blen = len(payload) if body_len is None else body_len
    head = b"8=" + begin + SOH + b"9=" + b(blen) + SOH
    pre = head + payload
    c = checksum(pre) if cks is None else cks
    if isinstance(c, int):
        c = b"%03d" % c
    return pre + b"10=" + b(c) + SOH


SESSION_TYPES = {"0", "1", "2", "3", "4", "5", "A"}
