"""SimLoop: a virtual-time asyncio event loop owned by the simulator.

CPython's own task/future/timer machinery runs unmodified; only the part of
BaseEventLoop that talks to the operating system (selector, real clock,
self-pipe) is replaced.  Semantics kept on purpose:

* the ready queue is FIFO and is never permuted;
* handles that were ready at the start of an iteration run as one batch,
  handles scheduled by them run in the next iteration;
* external events (I/O completions) enter only at iteration boundaries, before
  due timers -- exactly where ``_process_events`` would add them;
* timers become ready only between batches.

The controller (the simulation) is called at every iteration boundary and
after every executed handle.
"""
import asyncio
import heapq
from asyncio import events


class SimBudgetExceeded(Exception):
    """The run executed more handles / iterations than its deterministic cap."""


class SimDeadlock(Exception):
    """Nothing is ready, no timer is pending and the controller did not stop."""


class SimLivelock(BaseException):
    """A library task spins without yielding (detected by a seam, see net.py).

    Derives from BaseException so that the library's ``except Exception`` does
    not swallow it; asyncio stores it on the task, the simulator records it.
    """


class SimLoop(asyncio.BaseEventLoop):
    def __init__(self, controller=None, max_handles=200_000, epoch=0.0):
        super().__init__()
        self._vtime = float(epoch)
        self._clock_resolution = 1e-5
        self.controller = controller
        self.max_handles = max_handles
        self.n_handles = 0
        self.n_iters = 0
        self.unhandled = []
        self.set_exception_handler(self._on_unhandled)

    # ---- seams -----------------------------------------------------------
    def time(self):
        return self._vtime

    def _process_events(self, event_list):  # pragma: no cover - never called
        pass

    def _write_to_self(self):
        pass

    def _on_unhandled(self, loop, context):
        exc = context.get("exception")
        self.unhandled.append((context.get("message"), repr(exc)))
        ctl = self.controller
        if ctl is not None:
            ctl.on_unhandled(context)

    # ---- simulator API ---------------------------------------------------
    def inject(self, callback, *args):
        """Append an external event to the ready queue (like _process_events)."""
        h = events.Handle(callback, args, self, None)
        self._ready.append(h)
        return h

    def advance(self, dt):
        """Move the virtual clock forward, never past the next pending timer."""
        assert dt >= 0
        target = self._vtime + dt
        sched = self._scheduled
        while sched and sched[0]._cancelled:
            self._timer_cancelled_count -= 1
            h = heapq.heappop(sched)
            h._scheduled = False
        if sched and sched[0]._when < target:
            target = sched[0]._when
        if target > self._vtime:
            self._vtime = target

    def next_timer(self):
        sched = self._scheduled
        while sched and sched[0]._cancelled:
            self._timer_cancelled_count -= 1
            h = heapq.heappop(sched)
            h._scheduled = False
        return sched[0]._when if sched else None

    # ---- the loop body ---------------------------------------------------
    def _run_once(self):
        sched = self._scheduled
        while sched and sched[0]._cancelled:
            self._timer_cancelled_count -= 1
            h = heapq.heappop(sched)
            h._scheduled = False

        self.n_iters += 1
        ctl = self.controller
        if ctl is not None and not self._stopping:
            ctl.on_boundary()

        if not self._ready and not self._stopping:
            nt = self.next_timer()
            if nt is None and ctl is not None:
                ctl.on_stuck()
                nt = self.next_timer()
            if nt is None and not self._ready and not self._stopping:
                raise SimDeadlock("no ready handle, no timer, controller idle")
        if not self._ready and not self._stopping:
            if nt > self._vtime:
                self._vtime = nt

        end_time = self._vtime + self._clock_resolution
        while sched:
            h = sched[0]
            if h._when >= end_time:
                break
            h = heapq.heappop(sched)
            h._scheduled = False
            self._ready.append(h)

        ntodo = len(self._ready)
        for _ in range(ntodo):
            h = self._ready.popleft()
            if h._cancelled:
                continue
            self.n_handles += 1
            if self.n_handles > self.max_handles:
                raise SimBudgetExceeded(f"more than {self.max_handles} handles")
            h._run()
            if ctl is not None:
                ctl.after_handle()
        h = None
