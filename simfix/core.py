"""Sim: one deterministic simulated run = pure function of (code, config, trace).

Search mode draws every choice from one PRNG and records it as a readable
*action trace*; replay mode follows a recorded trace (actions that are not
enabled when their turn comes are skipped, which is what makes delta debugging
of the list meaningful).  Logging never touches the PRNG or a real clock.
"""
import asyncio
import collections
import hashlib
import logging
import random
import socket
import sys
import threading
import time as _real_time
from datetime import datetime as _real_datetime
from datetime import timedelta

from .loop import SimBudgetExceeded, SimDeadlock, SimLivelock, SimLoop
from .net import SimNet

EPOCH = 1_700_000_000.0

FAULT, SETTLE, DONE = "fault", "settle", "done"


class AppHookError(Exception):
    """Injected failure of an application hook (a fault of the application, not of the library)."""


class HarnessError(Exception):
    """The simulator itself is at fault (never a VIOLATION, never exit 0)."""


class Violation(Exception):
    def __init__(self, clause, signature, text):
        super().__init__(text)
        self.clause = clause
        self.signature = signature
        self.text = text


class _SimTime:
    """Stands in for the `time` module inside asyncfix.connection."""

    def __init__(self, sim):
        self._sim = sim

    def time(self):
        self._sim.clock_reads += 1
        return self._sim.loop.time()

    def monotonic(self):
        return self._sim.loop.time()

    def sleep(self, s):
        raise HarnessError("time.sleep() called by the system under test")


def _make_datetime(sim):
    class SimDatetime(_real_datetime):
        @classmethod
        def utcnow(cls):
            sim.clock_reads += 1
            return _real_datetime(1970, 1, 1) + timedelta(seconds=sim.loop.time())

        @classmethod
        def now(cls, tz=None):
            return cls.utcnow()

    return SimDatetime


class RecLogger:
    """Duck-typed logger handed to the library: records instead of printing."""

    def __init__(self, sim, label):
        self.sim = sim
        self.label = label

    def debug(self, *a, **k):
        pass

    def info(self, *a, **k):
        pass

    def warning(self, msg, *a, **k):
        self.sim.lib_log(self.label, "warning", msg, None)

    def error(self, msg, *a, **k):
        self.sim.lib_log(self.label, "error", msg, None)

    def exception(self, msg, *a, **k):
        exc = sys.exc_info()[1]
        self.sim.lib_log(self.label, "exception", msg, exc)

    critical = error

    def isEnabledFor(self, lvl):
        return False


def _raiser(name):
    def f(*a, **k):
        raise HarnessError(f"seam audit: real {name} used during a simulation")

    return f


class Seams:
    """Installs / restores every module-level seam for one run."""

    def __init__(self, sim):
        self.sim = sim
        self.saved = []

    def _set(self, obj, name, val):
        self.saved.append((obj, name, getattr(obj, name)))
        setattr(obj, name, val)

    def __enter__(self):
        import asyncfix
        import asyncfix.codec
        import asyncfix.connection
        import asyncfix.protocol.order_single as order_single

        sim = self.sim
        if not asyncfix.__file__.startswith(sim.repo_root):
            raise HarnessError(
                f"asyncfix imported from {asyncfix.__file__}, not {sim.repo_root}"
            )
        self._set(asyncio, "open_connection", sim.net.open_connection)
        self._set(asyncio, "start_server", sim.net.start_server)
        self._set(asyncfix.connection, "time", _SimTime(sim))
        dt = _make_datetime(sim)
        self._set(asyncfix.codec, "datetime", dt)
        self._set(order_single, "datetime", dt)
        self._set(socket, "socket", _raiser("socket.socket"))
        self._set(_real_time, "sleep", _raiser("time.sleep"))
        self._set(threading.Thread, "start", _raiser("threading.Thread.start"))
        self._disabled = logging.root.manager.disable
        logging.disable(logging.CRITICAL)
        return self

    def __exit__(self, *exc):
        for obj, name, val in reversed(self.saved):
            setattr(obj, name, val)
        logging.disable(self._disabled)
        return False


class Sim:
    """Base class of every simulated scenario family."""

    repo_root = "/repo/"
    family = "base"

    # default knobs (overridden by config)
    DEFAULTS = dict(
        seed=0,
        max_actions=60,
        max_boundaries=4000,
        max_fault_boundaries=1200,
        max_handles=150_000,
        p_act=0.5,
        p_more=0.25,
        p_pause=0.0,
        p_hook=0.0,
        p_refuse=0.0,
        p_delay=0.1,
        settle_s=60.0,
        settle_extra_s=5.0,
    )

    def __init__(self, config, trace=None):
        cfg = dict(self.DEFAULTS)
        cfg.update(config)
        self.cfg = cfg
        self.replaying = trace is not None
        self.trace_in = trace or {"actions": [], "inline": {}}
        self.rng = random.Random(cfg["seed"])
        self.out_actions = []
        self.out_inline = {}
        self.pos = 0
        self.run_left = 0
        self.skipped = 0
        self.phase = FAULT
        self.n_actions = 0
        self.n_boundaries = 0
        self.hist = []
        self._dig = hashlib.blake2b(digest_size=8)
        self._ileave = hashlib.blake2b(digest_size=8)
        self.evno = 0
        self.faults = collections.Counter()
        self.probes = collections.Counter()
        self.stats = collections.Counter()
        self.abs_states = set()
        self.lib_logs = []
        self.clock_reads = 0
        self.pending_hooks = {}
        self.hook_owner = {}  # hook id -> endpoint label
        self.stalled_hooks = []
        self.hook_counts = collections.Counter()
        self.next_hook_id = 0
        self.write_counts = collections.Counter()
        self.writes = collections.defaultdict(list)  # label -> [(evno, cid, bytes, dropped)]
        self.violation = None
        self.notes = []
        self.t_fault_end = None
        self.t_converged = None
        self.loop = None
        self.net = None
        self.tasks = []
        self.stop_reason = None
        self.harness_errors = []
        self._fw_state = {}

    # ------------------------------------------------------------------ log
    def rec(self, kind, *args):
        self.evno += 1
        ev = (self.evno, kind) + args
        self.hist.append(ev)
        self._dig.update(repr(ev).encode("utf-8", "backslashreplace"))
        self._ileave.update(repr((kind, args[0] if args else None)).encode())
        return self.evno

    def fault(self, kind, n=1):
        self.faults[kind] += n

    def probe(self, name, n=1):
        self.probes[name] += n

    def stat(self, name, n=1):
        self.stats[name] += n

    def lib_log(self, label, level, msg, exc):
        s = str(msg)
        self.lib_logs.append((self.evno, label, level, s[:300], repr(exc)[:300] if exc else None))
        self.rec("liblog", label, level, type(exc).__name__ if exc else None)

    def on_unhandled(self, context):
        self.rec("unhandled", str(context.get("message"))[:80], repr(context.get("exception"))[:120])

    # ------------------------------------------------------------- choosing
    def decide(self, key, p):
        """Inline yes/no decision, keyed (not positional) so that it survives
        trace minimisation."""
        if self.phase != FAULT:
            return False
        if self.replaying:
            yes = key in self.trace_in["inline"]
        else:
            yes = p > 0 and self.rng.random() < p
        if yes:
            self.out_inline[key] = 1
        return yes

    def decide_pause(self, tr):
        self.write_counts["pausekey:" + tr.label] += 1
        n = self.write_counts["pausekey:" + tr.label]
        return self.decide(f"pause:{tr.label}:{n}", self.cfg["p_pause"])

    def decide_slow_close(self, tr):
        p = self.cfg.get("p_slow_close", 0.0)
        if not p:
            return 0.0
        self.write_counts["closekey:" + tr.label] += 1
        n = self.write_counts["closekey:" + tr.label]
        if self.decide(f"slowclose:{tr.label}:{n}", p):
            return self.cfg.get("slow_close_s", 1.3)
        return 0.0

    def decide_refuse_connect(self, label, n):
        return self.decide(f"refuse:{label}:{n}", self.cfg["p_refuse"])

    async def hook(self, label, hname):
        """Suspension point inside an application hook."""
        self.hook_counts[(label, hname)] += 1
        n = self.hook_counts[(label, hname)]
        if self.decide(f"hook:{label}:{hname}:{n}", self.hook_p(label, hname)):
            fut = self.loop.create_future()
            self.next_hook_id += 1
            hid = self.next_hook_id
            self.pending_hooks[hid] = fut
            self.hook_owner[hid] = label
            self.rec("hook_park", label, hname, hid)
            self.fault("hook_suspended")
            self.fault("hook_suspended_in_" + hname)
            try:
                await fut
            finally:
                self.pending_hooks.pop(hid, None)
            ep = getattr(self, "eps", None) and self.eps.get(label)
            if ep is not None and getattr(ep, "_disconnect_in_progress", None) is not None:
                # reach probe: this task's processing resumes while another task's disconnect() is suspended
                self.probe("hook_resumed_during_disconnect")
                self.probe(f"hook_resumed_during_disconnect:{hname}:{ep.connection_state.name}")
        stall_p = self.cfg.get("p_hook_stall", 0.0)
        only = self.cfg.get("stall_hooks")
        if stall_p and (not only or hname in only) and self.hook_p(label, hname) > 0 \
                and self.decide(f"hookstall:{label}:{hname}:{n}", stall_p):
            # fault injection: a stalled application callback - it comes back by itself after a stretch of
            # simulated time in which the endpoint's other tasks (watchdog, senders, a disconnect) go on
            import asyncio

            d = self.cfg.get("hook_stall_s", 3.0)
            self.rec("hook_stall", label, hname, d)
            self.fault("hook_stalled")
            self.fault("hook_stalled_in_" + hname)
            fut = self.loop.create_future()
            h = self.loop.call_later(d, lambda f=fut: f.done() or f.set_result(None))
            self.stalled_hooks.append(fut)  # (begin_settle lets them return: faults stop there)
            # a stalled hook is work in progress like a parked one (quiescence, "at rest", idle points): it sits in
            # pending_hooks under a negative id, which no chooser / settle action ever names
            self.next_hook_id += 1
            sid = -self.next_hook_id
            self.pending_hooks[sid] = fut
            try:
                await fut
            finally:
                h.cancel()
                self.pending_hooks.pop(sid, None)
                if fut in self.stalled_hooks:
                    self.stalled_hooks.remove(fut)
            ep = getattr(self, "eps", None) and self.eps.get(label)
            if ep is not None and ep.connection_state.value <= 3:
                self.probe("stalled_hook_returned_after_the_connection_was_gone")
        if self.decide(f"hookraise:{label}:{hname}:{n}", self.hook_raise_p(label, hname)):
            # fault injection: the application's own handler fails (the library logs it and carries on)
            self.rec("hook_raise", label, hname)
            self.fault("application_hook_raised")
            raise AppHookError(f"injected failure in the application's {hname}()")

    def hook_p(self, label, hname):
        return self.cfg["p_hook"]

    state_hook_arg = None
    prop_id = "C??"  # set by the check that runs the simulation
    replay_hook_failed = frozenset()  # (families that inject should_replay failures install a set)

    def hook_raise_p(self, label, hname):
        return self.cfg.get("p_hook_raise", 0.0) if hname == "on_message" else 0.0

    def _record(self, action):
        self.out_actions.append(list(action))

    def _record_run(self):
        oa = self.out_actions
        if oa and oa[-1][0] == "run":
            oa[-1][1] += 1
        else:
            oa.append(["run", 1])

    def trace_out(self):
        return {"actions": self.out_actions, "inline": self.out_inline}

    # -------------------------------------------------------- network actions
    def net_enabled(self):
        """[(proto_action, weight)] for the generic network events."""
        out = []
        cfg = self.cfg
        for conn in self.net.conns:
            if conn.broken:
                for side, kind in conn.notify_pending.items():
                    if conn.tr[side] is not None:  # (not accepted yet: the error waits for the transport)
                        out.append((("notify", conn.cid, side), 1.0))
                continue
            for s in (0, 1):
                rx = conn.tr[1 - s]
                if rx is None:
                    continue
                if conn.q[s] and not conn.partitioned:
                    out.append((("deliver", conn.cid, s), cfg.get("w_deliver", 4.0)))
                elif (
                    conn.closed[s]
                    and not conn.q[s]
                    and not conn.eof_sent[s]
                    and not rx._lost_called
                    and not rx._closing
                ):
                    out.append((("eof", conn.cid, s), cfg.get("w_deliver", 4.0)))
                tr = conn.tr[s]
                if tr is not None and tr.paused:
                    out.append((("resume", conn.cid, s), cfg.get("w_resume", 2.0)))
        for hid in self.pending_hooks:
            if hid < 0:
                continue  # stalled: comes back by its own timer
            w = cfg.get("w_hook_done", 2.0)
            ep = getattr(self, "eps", None) and self.eps.get(self.hook_owner.get(hid))
            if ep is not None and getattr(ep, "_disconnect_in_progress", None) is not None:
                # fault placement: another task of this endpoint is suspended inside disconnect() right now -
                # letting the parked task go on *inside* that window is the interleaving worth trying
                w *= 8.0
            out.append((("hook_done", hid), w))
        return out

    def deliverable(self):
        for conn in self.net.conns:
            if not conn.broken and not conn.partitioned and (conn.q[0] or conn.q[1]):
                return True
        return False

    def concretize(self, proto):
        """Draw the parameters of a proto action (search mode only)."""
        if proto[0] == "deliver":
            _, cid, s = proto
            return ["deliver", cid, s, self.draw_chunk(self.net.conns[cid], s)]
        return list(proto)

    def draw_chunk(self, conn, s):
        law = self.cfg.get("chunk_law", "whole")
        if law == "whole":
            return "w"
        r = self.rng
        total = conn.inflight[s]
        if law == "byte":
            return 1
        if law == "small":
            return r.randint(1, 8)
        if law == "mixed":
            x = r.random()
            if x < 0.4:
                return "w"
            if x < 0.6:
                return r.randint(1, 8)
            if x < 0.8:
                return max(1, min(total, int(r.paretovariate(1.2))))
            return r.randint(1, max(1, total))
        if law == "all":
            return "all"
        return "w"

    def can_fire(self, a):
        k = a[0]
        try:
            if k == "deliver":
                conn = self.net.conns[a[1]]
                return (
                    not conn.broken
                    and bool(conn.q[a[2]])
                    and conn.tr[1 - a[2]] is not None
                    and not conn.partitioned
                )
            if k == "eof":
                conn = self.net.conns[a[1]]
                s = a[2]
                rx = conn.tr[1 - s]
                return (
                    not conn.broken
                    and conn.closed[s]
                    and not conn.q[s]
                    and not conn.eof_sent[s]
                    and rx is not None
                    and not rx._lost_called
                    and not rx._closing
                )
            if k == "resume":
                conn = self.net.conns[a[1]]
                tr = conn.tr[a[2]]
                return tr is not None and tr.paused
            if k == "hook_done":
                return a[1] in self.pending_hooks
            if k == "break":
                conn = self.net.conns[a[1]]
                return self.breakable(conn)
            if k == "notify":
                conn = self.net.conns[a[1]]
                return conn.broken and a[2] in conn.notify_pending and conn.tr[a[2]] is not None
            if k == "partition":
                conn = self.net.conns[a[1]]
                return conn.alive() and not conn.partitioned
            if k == "heal":
                conn = self.net.conns[a[1]]
                return conn.partitioned
        except IndexError:
            return False
        return self.can_fire_family(a)

    def breakable(self, conn):
        return (
            not conn.broken
            and conn.tr[0] is not None
            and conn.tr[1] is not None
            and not (conn.tr[0]._lost_called and conn.tr[1]._lost_called)
        )

    _ERRS = {
        "reset": lambda: ConnectionResetError(104, "Connection reset by peer (simulated)"),
        "pipe": lambda: BrokenPipeError(32, "Broken pipe (simulated)"),
        "timeout": lambda: TimeoutError(110, "Connection timed out (simulated)"),
        "eio": lambda: OSError(5, "Input/output error (simulated)"),
    }

    def _notify(self, conn, side, kind):
        tr = conn.tr[side]
        if tr is None:
            return
        if kind == "eof":
            self.loop.inject(tr.sim_eof)
        else:
            self.loop.inject(tr.sim_error, self._ERRS[kind]())

    def fire(self, a):
        k = a[0]
        loop = self.loop
        if k == "deliver":
            conn = self.net.conns[a[1]]
            s = a[2]
            n = a[3]
            if n == "w":
                data = conn.take(s, None)
            elif n == "all":
                data = conn.take_all(s)
            else:
                data = conn.take(s, int(n))
            self.stat("deliveries")
            if len(data) > 4096:
                self.probe("delivery_over_4096_bytes")
            loop.inject(conn.tr[1 - s].sim_data, data)
        elif k == "eof":
            conn = self.net.conns[a[1]]
            conn.eof_sent[a[2]] = True
            loop.inject(conn.tr[1 - a[2]].sim_eof)
        elif k == "resume":
            conn = self.net.conns[a[1]]
            loop.inject(conn.tr[a[2]].sim_resume)
        elif k == "hook_done":
            fut = self.pending_hooks.pop(a[1])
            if not fut.done():
                fut.set_result(None)
            self.rec("hook_done", a[1])
        elif k == "break":
            conn = self.net.conns[a[1]]
            _, cid, k0, k1, order = a
            lost = conn.drop_inflight()
            conn.broken = True
            self.rec("break", cid, k0, k1, order, lost)
            self.fault("break")
            self.fault("break_end_" + k0)
            self.fault("break_end_" + k1)
            if lost:
                self.fault("break_with_bytes_in_flight")
            self.on_break(conn, lost)
            kinds = {0: k0, 1: k1}
            for side in ((0, 1) if order == 0 else (1, 0)):
                tr = conn.tr[side]
                if kinds[side] == "silent":
                    conn.notify_pending[side] = "reset"
                    self.fault("half_open_end")
                else:
                    self._notify(conn, side, kinds[side])
                    if kinds[side] == "eof" and tr is not None and tr.paused:
                        # unflushed bytes towards a dead peer: the flush fails later
                        conn.notify_pending[side] = "pipe"
        elif k == "notify":
            conn = self.net.conns[a[1]]
            kind = conn.notify_pending.pop(a[2])
            self._notify(conn, a[2], kind)
        elif k == "partition":
            self.net.conns[a[1]].partitioned = True
            self.fault("partition")
            self.rec("partition", a[1])
        elif k == "heal":
            self.net.conns[a[1]].partitioned = False
            self.rec("heal", a[1])
        else:
            self.fire_family(a)

    def on_break(self, conn, lost_bytes):
        pass

    # hooks for families ----------------------------------------------------
    def setup(self):
        raise NotImplementedError

    def enabled_actions(self):
        return self.net_enabled()

    def can_fire_family(self, a):
        return False

    def fire_family(self, a):
        raise HarnessError(f"unknown action {a}")

    def fault_phase_over(self):
        return (
            self.n_actions >= self.cfg["max_actions"]
            or self.n_boundaries >= self.cfg["max_fault_boundaries"]
        )

    def step_check(self):
        pass

    def boundary_check(self):
        pass

    def abstract_state(self):
        return None

    def converged(self):
        """True when the scenario's goal state is reached (settle may stop early)."""
        return False

    def judge(self):
        pass

    def on_write(self, tr, data, dropped):
        self.write_counts[tr.label] += 1
        self.rec("write", tr.label, tr.conn.cid, data, dropped)
        self.writes[tr.label].append((self.evno, tr.conn.cid, data, dropped))

    def after_write(self, tr):
        pass

    def frames_written(self, label):
        """Frames written by endpoint `label`, judged on the byte *stream* of each connection (not per write(),
        so a library that splits or coalesces writes is seen the same): [(evno, cid, fdict, frame, dropped)],
        evno = the write that completed the frame.  Incremental: parses only writes not seen yet."""
        from . import refframer

        st = self._fw_state.setdefault(label, dict(n=0, buf={}, out=[]))
        ws = self.writes.get(label, [])
        for (ev, cid, data, dropped) in ws[st["n"]:]:
            key = (cid, bool(dropped))
            buf = st["buf"].get(key, b"") + data
            frames, err, rest = refframer.split_stream(buf)
            if err:
                # not a concatenation of frames (C02's business): resynchronise leniently
                frames = refframer.scan_frames(buf)
                rest = b""
            for fr in frames:
                st["out"].append((ev, cid, refframer.fdict(fr), fr, dropped))
            st["buf"][key] = rest
        st["n"] = len(ws)
        return st["out"]

    def on_transport_lost(self, tr, exc):
        self.rec("conn_lost", tr.label, tr.conn.cid, type(exc).__name__ if exc else None)

    # ------------------------------------------------------------ boundaries
    def on_boundary(self):
        self.n_boundaries += 1
        if self.violation is not None:
            self._stop("violation")
            return
        st = self.abstract_state()
        if st is not None:
            self.abs_states.add(hash(st))
        try:
            self.boundary_check()
        except Violation as v:
            self.violation = v
            self._stop("violation")
            return
        if self.n_boundaries > self.cfg["max_boundaries"]:
            if self.t_fault_end is None:
                self.t_fault_end = self.loop.time()
            self._stop("boundary-budget")
            return
        if self.phase == FAULT:
            if self.replaying:
                self._replay_boundary()
            else:
                self._search_boundary()
            if self.phase == FAULT:
                return
        if self.phase == SETTLE:
            self._settle_boundary()

    def _search_boundary(self):
        if self.fault_phase_over():
            self.begin_settle()
            return
        cfg = self.cfg
        r = self.rng
        while self.n_actions < cfg["max_actions"]:
            en = self.enabled_actions()
            if not en:
                break
            tot = 0.0
            for _, w in en:
                tot += w
            p = cfg["p_act"] * min(1.0, tot)
            if not self.loop._ready and self.loop.next_timer() is None:
                p = 2.0  # nothing can run and no timer is pending: an event must happen
            elif not self.loop._ready and self.deliverable():
                # the clock would jump while bytes are in flight: a network delay,
                # chosen deliberately and rarely
                p = max(p, 1.0 - cfg["p_delay"])
            if r.random() >= p:
                break
            x = r.random() * tot
            pick = en[-1][0]
            for pa, w in en:
                x -= w
                if x < 0:
                    pick = pa
                    break
            a = self.concretize(pick)
            self._record(a)
            self.n_actions += 1
            self.fire(a)
            if r.random() >= cfg["p_more"]:
                break
        self._record_run()

    def _replay_boundary(self):
        acts = self.trace_in["actions"]
        while True:
            if self.run_left > 0:
                if not self.loop._ready and self.loop.next_timer() is None:
                    # nothing can run and no timer is pending: letting the loop run is
                    # meaningless here (can only arise in an edited trace)
                    self.run_left = 0
                    continue
                self.run_left -= 1
                self._record_run()
                return
            if self.pos >= len(acts):
                self.begin_settle()
                return
            a = acts[self.pos]
            self.pos += 1
            if a[0] == "run":
                self.run_left = int(a[1]) if len(a) > 1 else 1
                continue
            if self.can_fire(a):
                self._record(a)
                self.n_actions += 1
                self.fire(a)
            else:
                self.skipped += 1

    def begin_settle(self):
        self.phase = SETTLE
        self.t_fault_end = self.loop.time()
        self.rec("settle_begin")
        for conn in self.net.conns:
            conn.partitioned = False
        for fut in list(self.stalled_hooks):
            if not fut.done():
                fut.set_result(None)

    def settle_actions(self):
        """Benign actions, canonical order: everything in flight moves FIFO."""
        out = []
        for hid in sorted(self.pending_hooks):
            if hid > 0:
                out.append(["hook_done", hid])
        for conn in self.net.conns:
            if conn.broken:
                for side in sorted(conn.notify_pending):
                    if conn.tr[side] is not None:
                        out.append(["notify", conn.cid, side])
                continue
            for s in (0, 1):
                tr = conn.tr[s]
                if tr is not None and tr.paused:
                    out.append(["resume", conn.cid, s])
                if conn.q[s] and conn.tr[1 - s] is not None:
                    out.append(["deliver", conn.cid, s, "all"])
                elif self.can_fire(["eof", conn.cid, s]):
                    out.append(["eof", conn.cid, s])
        return out

    def at_rest(self):
        """Nothing runnable, nothing in flight, no parked hook: only timers left."""
        if self.loop._ready or self.pending_hooks:
            return False
        for conn in self.net.conns:
            if not conn.broken and (conn.q[0] or conn.q[1]):
                return False
        return True

    def _settle_boundary(self):
        now = self.loop.time()
        if self.at_rest():
            if self.converged():
                if self.t_converged is None:
                    self.t_converged = now
            else:
                self.t_converged = None
            if self.t_converged is not None and now >= self.t_converged + self.cfg["settle_extra_s"]:
                self._stop("settled")
                return
            if now >= self.t_fault_end + self.cfg["settle_s"]:
                self._stop("settle-deadline")
                return
        elif now >= self.t_fault_end + self.cfg["settle_s"] + 10.0:
            self._stop("settle-deadline-busy")
            return
        for a in self.settle_actions():
            self.fire(a)

    def harness_fail(self, msg):
        """Record a simulator-side failure from a context where raising is unsafe."""
        self.harness_errors.append(msg)
        self._stop("harness-error")

    def on_stuck(self):
        """Called by the loop when nothing is ready and no timer is pending."""
        if self.phase == FAULT:
            self.begin_settle()
        if self.phase == SETTLE:
            acts = self.settle_actions()
            if acts:
                for a in acts:
                    self.fire(a)
                return
        self._stop("quiescent-forever")

    def _stop(self, why):
        if self.stop_reason is None:
            self.stop_reason = why
            self.phase = DONE
            self.loop.stop()

    def after_handle(self):
        if self.violation is None:
            try:
                self.step_check()
            except Violation as v:
                self.violation = v
                self._stop("violation")

    # ------------------------------------------------------------------ run
    def spawn(self, coro, name):
        t = self.loop.create_task(coro, name=name)
        self.tasks.append(t)
        return t

    def run(self):
        t0 = _real_time.perf_counter()
        self.loop = SimLoop(self, max_handles=self.cfg["max_handles"], epoch=EPOCH)
        self.net = SimNet(self)
        self.all_tasks = []

        def factory(loop, coro, **kw):
            t = asyncio.Task(coro, loop=loop, **kw)
            self.all_tasks.append((getattr(coro, "__qualname__", str(coro)), t))
            return t

        self.loop.set_task_factory(factory)
        asyncio.set_event_loop(None)
        try:
            with Seams(self):
                try:
                    self.setup()
                    try:
                        self.loop.run_forever()
                    except SimBudgetExceeded as e:
                        self.stop_reason = "handle-budget"
                        self.notes.append(str(e))
                    except SimDeadlock as e:
                        self.stop_reason = "deadlock"
                        self.notes.append(str(e))
                    if self.violation is None and not self.harness_errors:
                        try:
                            self.judge()
                        except Violation as v:
                            self.violation = v
                    if self.violation is None and not self.harness_errors:
                        # a library task that spun inside one loop iteration (SimLivelock, raised by the reader
                        # seam): outside the simulator that process burns a core and serves nobody, whatever
                        # property is being looked at
                        for name, err in self.dead_tasks():
                            if err.startswith("SimLivelock"):
                                self.violation = Violation(
                                    "progress", f"{self.prop_id}/library-task-spins-without-yielding/{name.split('.')[-1]}",
                                    f"{name} never yielded to the event loop again: {err}")
                                break
                finally:
                    self.teardown()
        except HarnessError:
            raise
        finally:
            try:
                self.loop.close()
            except Exception:
                pass
        if self.harness_errors:
            raise HarnessError("; ".join(self.harness_errors[:3]))
        res = self.result()
        res["wall_s"] = _real_time.perf_counter() - t0
        return res

    def dead_tasks(self):
        """Tasks that ended with an exception (library tasks are never awaited)."""
        out = []
        for name, t in self.all_tasks:
            if t.done() and not t.cancelled():
                e = t.exception()
                if e is not None:
                    out.append((name, repr(e)[:160]))
        return out

    def teardown(self):
        loop = self.loop
        self.dead = self.dead_tasks()
        self.controller_off = True
        loop.controller = None
        pending = [t for t in asyncio.all_tasks(loop) if not t.done()]
        for t in pending:
            t.cancel()
        for fut in list(self.pending_hooks.values()):
            if not fut.done():
                fut.cancel()
        if pending:
            loop._stopping = False
            for _ in range(50):
                if all(t.done() for t in pending):
                    break
                try:
                    loop.call_soon(loop.stop)
                    loop.run_forever()
                except Exception:
                    break
        for t in pending:
            if t.done() and not t.cancelled():
                try:
                    t.exception()
                except BaseException:
                    pass
        for t in self.tasks:
            if t.done() and not t.cancelled():
                try:
                    t.exception()
                except BaseException:
                    pass

    def result(self):
        v = self.violation
        return dict(
            family=self.family,
            seed=self.cfg["seed"],
            violation=None
            if v is None
            else dict(clause=v.clause, signature=v.signature, text=v.text),
            trace=self.trace_out(),
            digest=self._dig.hexdigest(),
            ileave=self._ileave.hexdigest(),
            faults=dict(self.faults),
            probes=dict(self.probes),
            stats=dict(self.stats),
            abs_states=list(self.abs_states),
            handles=self.loop.n_handles,
            boundaries=self.n_boundaries,
            actions=self.n_actions,
            skipped=self.skipped,
            sim_seconds=self.loop.time() - EPOCH,
            stop_reason=self.stop_reason,
            notes=self.notes,
            dead_tasks=getattr(self, "dead", []),
            clock_reads=self.clock_reads,
        )
