"""Application layer of a simulated endpoint: subclasses of the public client /
server classes whose hooks record (and optionally suspend on simulator-owned
futures).  Only public surface of the library is used."""
import random

from asyncfix import FIXMessage, FMsg, FTag
from asyncfix.connection import ConnectionState
from asyncfix.connection_client import AsyncFIXClient
from asyncfix.connection_server import AsyncFIXDummyServer
from asyncfix.protocol import FIXProtocol44

from .core import RecLogger

APP_TYPES = ["D", "8", "F", "G", "9", "U1", "j", "n"]  # (n = XMLnonFIX: an application message for this library)


class AppMixin:
    """Records every callback into the simulation history."""

    def sim_init(self, sim, name):
        self.sim = sim
        self.name = name
        self.delivered = []  # (evno, msgid, FIXMessage)
        self.n_on_disconnect = 0
        self.n_on_connect = 0
        self.states = []
        self.auto_logon = True
        self.replay_filter = None  # callable(msg) -> bool

    async def on_connect(self):
        self.n_on_connect += 1
        self.sim.rec("on_connect", self.name)
        self.sim.ep_event(self, "on_connect")
        w = self._socket_writer
        await self.sim.hook(self.name, "on_connect")
        if self._socket_writer is not w:
            # the callback was parked / stalled so long that its connection is gone (and maybe the next one is up
            # already, with its own on_connect): a sane application does not log on for a connection that is gone
            self.sim.rec("on_connect_outlived_its_connection", self.name)
            self.sim.probe("on_connect_outlived_its_connection")
            return
        if self.auto_logon and isinstance(self, AsyncFIXClient):
            msg = FIXMessage(
                FMsg.LOGON,
                {FTag.EncryptMethod: "0", FTag.HeartBtInt: self.heartbeat_period},
            )
            try:
                await self.send_msg(msg)
                self.sim.rec("logon_sent", self.name)
            except Exception as e:  # connection may already be gone
                self.sim.rec("logon_send_failed", self.name, type(e).__name__)

    async def on_disconnect(self):
        self.n_on_disconnect += 1
        self.sim.rec("on_disconnect", self.name)
        self.sim.ep_event(self, "on_disconnect")
        await self.sim.hook(self.name, "on_disconnect")

    async def on_message(self, msg):
        mid = msg.get(FTag.ClOrdID, None)
        seq = msg.get(FTag.MsgSeqNum, None)
        self.sim.rec("on_message", self.name, mid, seq, str(msg.msg_type))
        self.delivered.append((self.sim.evno, mid, msg))
        self.sim.ep_event(self, "on_message", msg)
        await self.sim.hook(self.name, "on_message")

    async def on_logon(self, is_healthy):
        self.sim.rec("on_logon", self.name, bool(is_healthy))
        self.sim.ep_event(self, "on_logon", is_healthy)
        await self.sim.hook(self.name, "on_logon")

    async def on_logout(self, msg):
        self.sim.rec("on_logout", self.name)
        self.sim.ep_event(self, "on_logout", msg)
        await self.sim.hook(self.name, "on_logout")

    async def on_state_change(self, connection_state):
        self.sim.rec("state", self.name, int(connection_state))
        self.states.append((self.sim.evno, connection_state))
        self.sim.ep_event(self, "state", connection_state)
        self.sim.state_hook_arg = connection_state  # (which transition this hook call announces)
        await self.sim.hook(self.name, "on_state_change")

    async def should_replay(self, historical_replay_msg):
        seq = historical_replay_msg.get(FTag.MsgSeqNum, None)
        self.sim.rec("should_replay", self.name, seq)
        self.sim.stat("should_replay_calls")
        try:
            await self.sim.hook(self.name, "should_replay")
        except Exception:
            # injected handler failure: the application neither agreed nor declined to replay this number
            self.sim.replay_hook_failed.add(str(seq))
            raise
        if self.replay_filter is not None:
            return bool(self.replay_filter(historical_replay_msg))
        return True


class SimClient(AppMixin, AsyncFIXClient):
    pass


class SimServer(AppMixin, AsyncFIXDummyServer):
    pass


def make_endpoint(sim, cls, name, sender, target, journaler, host, port, hb):
    ep = cls(
        protocol=FIXProtocol44(),
        sender_comp_id=sender,
        target_comp_id=target,
        journaler=journaler,
        host=host,
        port=port,
        heartbeat_period=hb,
        logger=RecLogger(sim, name),
    )
    ep.sim_init(sim, name)
    return ep


# ---------------------------------------------------------------- payloads
_ALPH_ASCII = "abcdefghijklmnopqrstuvwxyzABCDEFGHIJKLMNOPQRSTUVWXYZ0123456789 .,:;-_+*/()=<>!?#%&@[]{}|~^'\""
_ALPH_LATIN1 = "äöüßéèçñÆØÅ£¥©®µ¿"
_ALPH_BMP = "ЖдяΩλ中文日本語한국어₽€"
_ALPH_ASTRAL = "😀🚀𝔘𝕏"
# text that is not in Unicode normal form C: combining marks after their base letter, singleton / compatibility
# code points, conjoining Hangul jamo (anything that "normalises" a frame after framing changes its bytes)
_ALPH_NFD = "e\u0301a\u0308o\u0302n\u0303\u2126\u212b\u1100\u1161\u11a8\ufb01\u00b5"


def rand_text(r, n, alphabet=_ALPH_ASCII):
    return "".join(r.choice(alphabet) for _ in range(n))


def app_message(seed, side, k, law="small", charset="ascii"):
    """Deterministic application message #k of `side` for run `seed`.

    The ClOrdID (tag 11) is the unique id used by the delivery oracles."""
    r = random.Random(seed * 1000003 + (1 if side == "A" else 2) * 7919 + k)
    mtype = r.choice(APP_TYPES)
    if charset not in ("ascii", "surrogate") and r.random() < 0.15:
        # custom message type with a non-ASCII character (BodyLength counts the 35= field as well)
        mtype = r.choice(["U\u00c4", "U\u20ac", "\u00d1"])
    m = FIXMessage(mtype)
    m[FTag.ClOrdID] = f"{side}-{k}"
    m[FTag.Symbol] = r.choice(["ES", "NQ", "CL", "6E", "ZB"])
    m[FTag.Side] = r.choice(["1", "2"])
    m[FTag.OrderQty] = r.randint(1, 500)
    m[FTag.Price] = f"{r.randint(1, 99999) / 100:.2f}"
    alph = _ALPH_ASCII
    if charset == "latin1":
        alph = _ALPH_ASCII + _ALPH_LATIN1
    elif charset == "bmp":
        alph = _ALPH_ASCII + _ALPH_LATIN1 + _ALPH_BMP
    elif charset == "astral":
        alph = _ALPH_ASCII + _ALPH_BMP + _ALPH_ASTRAL
    elif charset == "nfd":
        alph = _ALPH_ASCII[:30] + _ALPH_NFD * 3
    elif charset == "surrogate":
        # lone surrogates cannot be put on the wire at all: the send must be refused, not mis-framed
        alph = _ALPH_ASCII + "\ud800\udfff"
    elif charset == "soh":
        alph = _ALPH_ASCII + "\x01"

    if law == "small":
        n = r.randint(0, 12)
    elif law == "medium":
        n = r.randint(0, 300)
    elif law == "huge":  # some frames exceed asyncio's default 64 KiB write high-water mark
        n = r.choice([0, 40, 3000, 70_000, 70_000, 140_000])
    else:  # big: some frames exceed the 4096-byte read size
        n = r.choice([0, 5, 40, 300, 2000, 5000, 9000])
    if n:
        m[FTag.Text] = rand_text(r, n, _ALPH_ASCII if (not str(mtype).isascii() and r.random() < 0.6) else alph)
        if charset != "surrogate" and r.random() < 0.08:
            # printf-style pieces: a value is data, never a format string
            m.set(FTag.Text, m[FTag.Text] + r.choice([" 5%% off", " %s %d", " 100%", " %(x)s", " {0} {}"]), replace=True)
    if r.random() < 0.4:
        m.set_group(
            FTag.NoPartyIDs,
            [
                {
                    FTag.PartyID: rand_text(r, r.randint(1, 6), "ABCDEFGH123"),
                    FTag.PartyIDSource: r.choice("BCD"),
                    FTag.PartyRole: r.randint(1, 30),
                }
                for _ in range(r.randint(1, 3))
            ],
        )
    if r.random() < 0.2:
        m.set_group(
            FTag.NoSecurityAltID,
            [
                {FTag.SecurityAltID: rand_text(r, 4, "XYZ09"), FTag.SecurityAltIDSource: "4"}
                for _ in range(r.randint(1, 2))
            ],
        )
    return m


def body_fingerprint(msg, view=None):
    """Content of an application message independent of header/trailer fields.

    view="sent": values as the bytes the encoder puts on the wire (utf-8); view="recv": values as the
    bytes the decoder saw (it decodes one char per byte) - the two are comparable for any charset."""
    def val(v):
        if view == "sent":
            return str(v).encode("utf-8", "surrogatepass")  # lone surrogates: the send is refused anyway
        if view == "recv":
            return str(v).encode("latin-1")
        return v

    skip = {"8", "9", "10", "35", "34", "49", "56", "52", "43", "122", "97"}
    out = []

    def walk(c, prefix):
        for t in c.tags:
            if not prefix and t in skip:
                continue
            if c.is_group(t):
                items = c.get_group_list(t)
                out.append((prefix + t, len(items)))
                for i, g in enumerate(items):
                    walk(g, f"{prefix}{t}[{i}].")
            else:
                out.append((prefix + t, val(c.tags[t])))

    out.append(("35", val(str(msg.msg_type))))
    walk(msg, "")
    return tuple(out)
