"""Seeded search over simulated runs, minimisation, replay, evidence, findings.

Exit status of a check:  0 = property held on everything explored (known
findings are printed as KNOWN-FINDING lines), 1 = at least one VIOLATION line,
2 = the harness itself failed (never reported as a violation, never exit 0).
"""
import collections
import concurrent.futures as cf
import faulthandler
import json
import multiprocessing
import os
import signal
import subprocess
import sys
import time
import traceback

VERIF = os.path.dirname(os.path.dirname(os.path.abspath(__file__)))
KNOWN_FILE = os.path.join(VERIF, "known_findings.txt")


def run_seed_for(base_seed, index):
    """64-bit run seed from (VERIF_SEED, run index): splitmix-style mix."""
    x = (base_seed * 0x9E3779B97F4A7C15 + index * 0xBF58476D1CE4E5B9 + 0x94D049BB133111EB) & (
        (1 << 64) - 1
    )
    x ^= x >> 30
    x = (x * 0xBF58476D1CE4E5B9) & ((1 << 64) - 1)
    x ^= x >> 27
    x = (x * 0x94D049BB133111EB) & ((1 << 64) - 1)
    x ^= x >> 31
    return x & ((1 << 62) - 1)


# --------------------------------------------------------------- known findings
def load_findings(prop):
    known, fixed = [], []
    if not os.path.exists(KNOWN_FILE):
        return known, fixed
    for line in open(KNOWN_FILE, encoding="utf-8"):
        line = line.strip()
        if not line or line.startswith("#"):
            continue
        head, _, desc = line.partition(" :: ")
        toks = head.split()
        kind = toks[0].rstrip(":")
        kv = dict(t.split("=", 1) for t in toks[1:] if "=" in t)
        if kv.get("property") != prop:
            continue
        ent = dict(kind=kind, desc=desc.strip(), **kv)
        (known if kind == "known" else fixed).append(ent)
    return known, fixed


def sig_matches(sig, pattern):
    if pattern.endswith("*"):
        return sig.startswith(pattern[:-1])
    return sig == pattern


def known_entry_for(sig, known):
    for k in known:
        if sig_matches(sig, k.get("signature", "")):
            return k
    return None


# ------------------------------------------------------------------- workers
_CHECK = None


def _worker_init(check_id):
    global _CHECK
    from . import checks

    _CHECK = checks.get(check_id)
    faulthandler.enable()


def _merge_result(agg, res, keep_samples):
    agg["runs"] += 1
    agg["handles"] += res.get("handles", 0)
    agg["sim_seconds"] += res.get("sim_seconds", 0.0)
    agg["actions"] += res.get("actions", 0)
    agg["evaluations"] += res.get("evaluations", 1)
    for k in ("faults", "probes", "stats", "foreign"):
        for n, v in (res.get(k) or {}).items():
            agg[k][n] += v
    agg["abs_states"].update(res.get("abs_states") or ())
    nontrivial = res.get("nontrivial", True)
    if nontrivial:
        agg["ileaves"].add(res.get("ileave"))
    for x in res.get("ileaves_extra") or ():
        agg["ileaves"].add(x)
    agg["stop"][res.get("stop_reason")] += 1
    if res.get("dead_tasks"):
        agg["probes"]["runs_with_a_dead_library_task"] += 1
    v = res.get("violation")
    if v is not None:
        agg["violations"].append(
            dict(seed=res["seed"], signature=v["signature"], clause=v["clause"], text=v["text"],
                 config=res.get("config"), trace=res.get("trace"), digest=res.get("digest"))
        )
    if keep_samples and res.get("sample") is not None and len(agg["samples"]) < keep_samples:
        agg["samples"].append(res["sample"])


def _new_agg():
    return dict(
        runs=0, handles=0, sim_seconds=0.0, actions=0, evaluations=0,
        faults=collections.Counter(), probes=collections.Counter(), stats=collections.Counter(),
        foreign=collections.Counter(), abs_states=set(), ileaves=set(), stop=collections.Counter(),
        violations=[], samples=[], errors=[],
    )


def _run_chunk(args):
    tier, base_seed, indices, want_samples = args
    agg = _new_agg()
    for i in indices:
        seed = run_seed_for(base_seed, i)
        try:
            res = _CHECK.run_seed(seed, tier, index=i, want_sample=len(agg["samples"]) < want_samples)
        except Exception:
            agg["errors"].append((seed, traceback.format_exc()))
            if len(agg["errors"]) > 3:
                break
            continue
        _merge_result(agg, res, want_samples)
        # keep at most a few violations per chunk (each carries a trace)
        if len(agg["violations"]) > 40:
            agg["violations"] = agg["violations"][:40]
    return agg


def _merge_agg(a, b):
    for k in ("runs", "handles", "sim_seconds", "actions", "evaluations"):
        a[k] += b[k]
    for k in ("faults", "probes", "stats", "foreign", "stop"):
        a[k].update(b[k])
    a["abs_states"] |= b["abs_states"]
    a["ileaves"] |= b["ileaves"]
    a["violations"].extend(b["violations"])
    a["errors"].extend(b["errors"])
    for s in b["samples"]:
        if len(a["samples"]) < 3:
            a["samples"].append(s)


# --------------------------------------------------------------- minimisation
def minimise(check, viol, budget_s=25.0, max_replays=400):
    """Delta-debug the action trace (then inline decisions) keeping the signature."""
    cfg = viol["config"]
    trace = viol["trace"]
    sig = viol["signature"]
    t_end = time.time() + budget_s
    n_rep = [0]

    def fails(tr):
        if time.time() > t_end or n_rep[0] >= max_replays:
            return False
        n_rep[0] += 1
        try:
            r = check.replay(cfg, tr)
        except Exception:
            return False
        v = r.get("violation")
        return v is not None and v["signature"] == sig

    if trace is None or "actions" not in trace:
        return trace, 0
    acts = [list(a) for a in trace["actions"]]
    inline = dict(trace.get("inline") or {})
    if not fails({"actions": acts, "inline": inline}):
        return trace, n_rep[0]
    # 1. truncate the tail
    lo, hi = 0, len(acts)
    while lo < hi and time.time() < t_end:
        mid = (lo + hi) // 2
        if fails({"actions": acts[:mid], "inline": inline}):
            hi = mid
        else:
            lo = mid + 1
    if hi < len(acts) and fails({"actions": acts[:hi], "inline": inline}):
        acts = acts[:hi]
    # 2. ddmin over chunks
    n = 2
    while len(acts) >= 2 and time.time() < t_end and n_rep[0] < max_replays:
        chunk = max(1, len(acts) // n)
        reduced = False
        i = 0
        while i < len(acts):
            cand = acts[:i] + acts[i + chunk:]
            if cand and fails({"actions": cand, "inline": inline}):
                acts = cand
                n = max(n - 1, 2)
                reduced = True
            else:
                i += chunk
        if not reduced:
            if chunk == 1:
                break
            n = min(len(acts), n * 2)
    # 3. inline decisions
    for key in list(inline):
        cand = dict(inline)
        del cand[key]
        if fails({"actions": acts, "inline": cand}):
            inline = cand
    # 4. shrink run lengths
    for i, a in enumerate(acts):
        if a[0] == "run" and len(a) > 1 and a[1] > 1:
            for smaller in (1, a[1] // 2):
                if smaller < a[1]:
                    cand = [list(x) for x in acts]
                    cand[i][1] = smaller
                    if fails({"actions": cand, "inline": inline}):
                        acts = cand
                        break
    return {"actions": acts, "inline": inline}, n_rep[0]


# --------------------------------------------------------------------- replay
def write_replay(check, viol, trace, directory="replays"):
    base = os.environ.get("SIMFIX_REPLAY_DIR") or os.path.join(VERIF, directory)
    os.makedirs(base, exist_ok=True)
    path = os.path.join(base, f"{check.ID}-{viol['seed']}.json")
    r = check.replay(viol["config"], trace)
    v = r.get("violation") or {}
    obj = dict(
        property=check.ID,
        signature=v.get("signature", viol["signature"]),
        text=v.get("text", viol["text"]),
        seed=viol["seed"],
        config=viol["config"],
        trace=trace,
        digest=r.get("digest"),
    )
    with open(path, "w") as f:
        json.dump(obj, f, indent=1, default=str)
    return path, obj


def replay_file(check, path):
    obj = json.load(open(path))
    r = check.replay(obj["config"], obj["trace"])
    return obj, r


def fresh_interpreter_replay(path, hashseed="12345"):
    """Replay in a new interpreter under another PYTHONHASHSEED; returns
    (violation_reproduced, same_digest)."""
    env = dict(os.environ)
    env["PYTHONHASHSEED"] = hashseed
    env["SIMFIX_NO_REEXEC"] = "1"
    p = subprocess.run(
        [sys.executable, os.path.join(VERIF, "bin", "check"), "--replay", path, "--json"],
        env=env, capture_output=True, text=True, timeout=300,
    )
    try:
        out = json.loads(p.stdout.strip().splitlines()[-1])
    except Exception:
        return False, False
    return out.get("reproduced", False), out.get("same_digest", False)


# ---------------------------------------------------------------------- main
def run_check(check_id, tier, base_seed, workers=None, runs=None, out=sys.stdout):
    from . import checks

    t0 = time.time()
    check = checks.get(check_id)
    known, fixed = load_findings(check.ID)
    exit_code = 0
    lines = []
    known_seen = collections.Counter()
    viol_reports = []

    def say(s):
        print(s, file=out, flush=True)

    # 1. known findings: re-execute their stored replay, print the line
    for k in known:
        path = os.path.join(VERIF, k.get("replay", ""))
        status = "not-replayed"
        if k.get("replay") and os.path.exists(path):
            try:
                obj, r = replay_file(check, path)
                v = r.get("violation")
                if v is not None and sig_matches(v["signature"], k["signature"]):
                    status = "reproduced"
                else:
                    status = "no-longer-reproduces"
            except Exception:
                say("HARNESS-ERROR replaying known finding " + path)
                traceback.print_exc()
                return 2
        k["status"] = status
        if status == "reproduced":
            say(f"KNOWN-FINDING: property={check.ID} {k['signature']} -- {k['desc']}")
        else:
            say(f"note: known finding {k['signature']} {status}")

    # 2. regression replays of fixed defects
    regress_dir = os.path.join(VERIF, "regress")
    n_regress = 0
    if os.path.isdir(regress_dir):
        for fn in sorted(os.listdir(regress_dir)):
            if not fn.startswith(check.ID + "-") or not fn.endswith(".json"):
                continue
            path = os.path.join(regress_dir, fn)
            try:
                obj, r = replay_file(check, path)
            except Exception:
                say("HARNESS-ERROR replaying " + path)
                traceback.print_exc()
                return 2
            n_regress += 1
            v = r.get("violation")
            if v is not None and not known_entry_for(v["signature"], known):
                say(f"VIOLATION property={check.ID} replay={path}")
                say(f"  regression: {v['signature']}: {v['text']}")
                viol_reports.append(dict(signature=v["signature"], text=v["text"], replay=path, source="regress"))
                exit_code = 1

    # 3. seeded search
    n_runs = runs if runs is not None else check.runs(tier)
    workers = workers or min(16, os.cpu_count() or 1)
    chunk = max(1, min(check.chunk(tier), (n_runs + workers * 4 - 1) // (workers * 4)))
    jobs = []
    for lo in range(0, n_runs, chunk):
        jobs.append((tier, base_seed, list(range(lo, min(n_runs, lo + chunk))), 1))
    agg = _new_agg()
    if workers == 1 or n_runs <= 4:
        _worker_init(check_id)
        for j in jobs:
            _merge_agg(agg, _run_chunk(j))
    else:
        ctx = multiprocessing.get_context("fork")
        with cf.ProcessPoolExecutor(max_workers=workers, mp_context=ctx, initializer=_worker_init,
                                    initargs=(check_id,)) as ex:
            futs = [ex.submit(_run_chunk, j) for j in jobs]
            deadline = check.wall_limit(tier)
            try:
                for f in cf.as_completed(futs, timeout=deadline):
                    _merge_agg(agg, f.result())
            except cf.TimeoutError:
                say(f"HARNESS-ERROR: search exceeded its wall limit of {deadline}s")
                for f in futs:
                    f.cancel()
                for p in list(ex._processes.values()):
                    try:
                        os.kill(p.pid, signal.SIGKILL)
                    except Exception:
                        pass
                write_evidence(check, tier, base_seed, agg, t0, known, viol_reports, n_regress, harness_error=True)
                return 2
    if agg["errors"]:
        say(f"HARNESS-ERROR: {len(agg['errors'])} run(s) raised inside the simulator; first:")
        say(agg["errors"][0][1])
        write_evidence(check, tier, base_seed, agg, t0, known, viol_reports, n_regress, harness_error=True)
        return 2

    # 4. triage violations by signature
    by_sig = collections.OrderedDict()
    for v in sorted(agg["violations"], key=lambda v: (len(json.dumps(v["trace"], default=str)) if v.get("trace") else 0)):
        by_sig.setdefault(v["signature"], []).append(v)
    new_sigs = []
    for sig, vs in by_sig.items():
        k = known_entry_for(sig, known)
        if k is not None:
            known_seen[k["signature"]] += len(vs)
            continue
        new_sigs.append((sig, vs))
    for sig, vs in new_sigs[: check.max_reports]:
        v = vs[0]
        try:
            if hasattr(check, "minimise_trace"):
                trace = check.minimise_trace(v["config"], v["trace"], v["signature"])
                n_rep = getattr(check, "last_minimise_replays", 0)
            else:
                trace, n_rep = minimise(check, v, budget_s=check.minimise_budget_s)
            path, obj = write_replay(check, v, trace)
            rep, same = fresh_interpreter_replay(path)
        except Exception:
            say("HARNESS-ERROR while minimising / writing replay")
            traceback.print_exc()
            return 2
        say(f"VIOLATION property={check.ID} replay={path}")
        say(f"  signature: {obj['signature']}  ({len(vs)} run(s); seed {v['seed']}; minimised with {n_rep} replays)")
        say(f"  {obj['text']}")
        if not rep:
            say("  WARNING: fresh-interpreter replay did not reproduce the violation")
        viol_reports.append(dict(signature=obj["signature"], text=obj["text"], replay=path, runs=len(vs),
                                 fresh_interpreter_reproduced=rep, same_digest=same))
        exit_code = 1
    if len(new_sigs) > check.max_reports:
        say(f"  (+{len(new_sigs) - check.max_reports} further distinct signatures not minimised)")
        for sig, vs in new_sigs[check.max_reports:]:
            say(f"  also: {sig} ({len(vs)} run(s), e.g. seed {vs[0]['seed']})")
            viol_reports.append(dict(signature=sig, text=vs[0]["text"], replay=None, runs=len(vs)))

    write_evidence(check, tier, base_seed, agg, t0, known, viol_reports, n_regress, known_seen=known_seen)
    dt = time.time() - t0
    say(
        f"{check.ID} {tier}: {agg['runs']} runs, {agg['evaluations']} evaluations, {len(agg['ileaves'])} distinct interleavings, "
        f"{len(agg['abs_states'])} abstract states, {sum(agg['faults'].values())} faults fired, "
        f"{len(viol_reports)} violation signature(s), known-finding runs: {sum(known_seen.values())}, {dt:.1f}s"
    )
    return exit_code


def write_evidence(check, tier, base_seed, agg, t0, known, viol_reports, n_regress, known_seen=None,
                   harness_error=False):
    wall = time.time() - t0
    runs = agg["runs"]
    cov = dict(
        evaluations=max(agg["evaluations"], 0),
        distinct_nontrivial=len(agg["ileaves"]),
        rule=check.rule,
        samples=agg["samples"][:3] or ["(no run completed)"],
        runs=runs,
        runs_per_hour=int(runs / wall * 3600) if wall > 0 else 0,
        simulated_seconds=round(agg["sim_seconds"], 1),
        handles_executed=agg["handles"],
        chooser_actions=agg["actions"],
        faults_fired=dict(sorted(agg["faults"].items())),
        probes=dict(sorted(agg["probes"].items())),
        stats=dict(sorted(agg["stats"].items())),
        foreign_probe_hits=dict(sorted(agg["foreign"].items())),
        abstract_states=len(agg["abs_states"]),
        distinct_interleavings=len(agg["ileaves"]),
        stop_reasons={str(k): v for k, v in agg["stop"].items()},
        components=check.components,
        regress_replays_run=n_regress,
        known_findings=[dict(signature=k["signature"], status=k.get("status"), desc=k["desc"],
                             runs_hit=(known_seen or {}).get(k["signature"], 0)) for k in known],
        violations=viol_reports,
        harness_error=harness_error,
        exhaustive=False,
    )
    ev = dict(
        property_id=check.ID,
        tier=tier,
        seed=int(base_seed),
        level=check.LEVEL,
        coverage=cov,
        assumptions=check.assumptions,
        wall_s=round(wall, 2),
        violations=len(viol_reports),
    )
    evdir = os.environ.get("SIMFIX_EVIDENCE_DIR") or os.path.join(VERIF, "evidence")
    os.makedirs(evdir, exist_ok=True)
    path = os.path.join(evdir, f"{check.ID}.json")
    tmp = path + ".tmp"
    with open(tmp, "w") as f:
        json.dump(ev, f, indent=1, default=str)
    os.replace(tmp, path)
