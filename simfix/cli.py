import argparse
import json
import os
import sys
import traceback


def main(argv):
    ap = argparse.ArgumentParser(prog="check")
    ap.add_argument("check", nargs="?")
    ap.add_argument("rest", nargs="*")
    ap.add_argument("--tier", default=os.environ.get("VERIF_TIER", "quick"), choices=["quick", "thorough"])
    ap.add_argument("--runs", type=int)
    ap.add_argument("--workers", type=int)
    ap.add_argument("--replay")
    ap.add_argument("--json", action="store_true")
    ap.add_argument("--n", type=int, default=40)
    ap.add_argument("--one", type=int, help="run one run seed, minimise, write replay")
    ap.add_argument("--show", type=int, default=0, help="with --replay/--one: print N history events")
    args = ap.parse_args(argv)
    seed = int(os.environ.get("VERIF_SEED", "0") or 0)
    try:
        import asyncfix

        root = os.environ.get("SIMFIX_REPO", "/repo").rstrip("/") + "/"
        if not asyncfix.__file__.startswith(root):
            print(f"HARNESS-ERROR: asyncfix imported from {asyncfix.__file__}, expected under {root}")
            return 2
        from . import core

        core.Sim.repo_root = root
        if args.replay:
            return do_replay(args)
        if args.check == "selftest-determinism":
            from . import selftest

            return selftest.determinism(args.n, seed, ids=args.rest or None)
        if args.check == "selftest-child":
            from . import selftest

            return selftest.child(args.rest)
        from . import runner

        if args.one is not None:
            return do_one(args)
        print(f"VERIF_SEED={seed} tier={args.tier} check={args.check}", flush=True)
        return runner.run_check(args.check, args.tier, seed, workers=args.workers, runs=args.runs)
    except SystemExit:
        raise
    except BaseException:
        print("HARNESS-ERROR: unexpected exception in the check harness")
        traceback.print_exc()
        return 2


def do_replay(args):
    from . import checks, runner

    obj = json.load(open(args.replay))
    check = checks.get(obj["property"])
    r = check.replay(obj["config"], obj["trace"])
    v = r.get("violation")
    reproduced = v is not None and v["signature"] == obj.get("signature")
    same = r.get("digest") == obj.get("digest")
    if args.show and hasattr(check, "show_replay"):
        check.show_replay(obj["config"], obj["trace"], args.show)
    if args.json:
        print(json.dumps(dict(reproduced=reproduced, same_digest=same, signature=v and v["signature"])))
        return 1 if reproduced else 0
    print(f"replay {args.replay}: digest {'identical' if same else 'DIFFERS'} ({r.get('digest')})")
    if v is not None:
        known, _ = runner.load_findings(check.ID)
        k = runner.known_entry_for(v["signature"], known)
        if k is not None:
            print(f"KNOWN-FINDING: property={check.ID} {v['signature']} -- {k['desc']}")
            return 0
        print(f"VIOLATION property={check.ID} replay={os.path.abspath(args.replay)}")
        print(f"  signature: {v['signature']}")
        print(f"  {v['text']}")
        return 1
    print("no violation on this tree")
    return 0


def do_one(args):
    from . import checks, runner

    check = checks.get(args.check)
    res = check.run_seed(args.one, args.tier)
    v = res.get("violation")
    print("config:", res["config"])
    print("stop:", res.get("stop_reason"), "faults:", res.get("faults"), "probes:", res.get("probes"))
    if v is None:
        print("no violation")
        return 0
    viol = dict(seed=res["seed"], signature=v["signature"], clause=v["clause"], text=v["text"],
                config=res["config"], trace=res["trace"], digest=res["digest"])
    trace, n = runner.minimise(check, viol)
    path, obj = runner.write_replay(check, viol, trace)
    print(f"VIOLATION property={check.ID} replay={path}")
    print("  ", obj["signature"], "--", obj["text"])
    print("   minimised trace:", json.dumps(trace))
    return 1
