"""Determinism self-test of the machinery.

For every available check: N run seeds, each executed twice in this process and
once more in a fresh interpreter under another PYTHONHASHSEED (and through a
2-worker pool); the event-log digests must be identical.  A divergence is a
harness error (exit 2), never a VIOLATION.
"""
import concurrent.futures as cf
import json
import multiprocessing
import os
import subprocess
import sys

from . import checks
from .runner import VERIF, run_seed_for


def _digests(check_id, tier, base_seed, n):
    ck = checks.get(check_id)
    out = []
    for i in range(n):
        seed = run_seed_for(base_seed, i)
        r = ck.run_seed(seed, tier, index=i)
        v = r.get("violation")
        out.append([str(seed), r.get("digest"), r.get("ileave"), v and v["signature"], r.get("stop_reason")])
    return out


def _pool_job(args):
    return _digests(*args)


def child(argv):
    """Entry for the fresh-interpreter leg: prints JSON {check: digests}."""
    ids, tier, base_seed, n = argv[0].split(","), argv[1], int(argv[2]), int(argv[3])
    print("SELFTEST-JSON " + json.dumps({c: _digests(c, tier, base_seed, n) for c in ids}))
    return 0


def determinism(n, base_seed, ids=None):
    ids = ids or checks.available()
    tier = "quick"
    first = {c: _digests(c, tier, base_seed, n) for c in ids}
    second = {c: _digests(c, tier, base_seed, n) for c in ids}
    bad = []
    for c in ids:
        for a, b in zip(first[c], second[c]):
            if a != b:
                bad.append((c, "same-process rerun", a, b))
    # fresh interpreter, different hash seed
    env = dict(os.environ)
    env["PYTHONHASHSEED"] = "98765"
    env["SIMFIX_NO_REEXEC"] = "1"
    p = subprocess.run(
        [sys.executable, os.path.join(VERIF, "bin", "check"), "selftest-child", ",".join(ids), tier, str(base_seed), str(n)],
        env=env, capture_output=True, text=True, timeout=1200,
    )
    third = None
    for line in p.stdout.splitlines():
        if line.startswith("SELFTEST-JSON "):
            third = json.loads(line[len("SELFTEST-JSON "):])
    if third is None:
        print("HARNESS-ERROR: fresh-interpreter leg of the determinism self-test produced no result")
        print(p.stdout[-2000:])
        print(p.stderr[-2000:])
        return 2
    for c in ids:
        for a, b in zip(first[c], third[c]):
            if a != b:
                bad.append((c, "fresh interpreter, other PYTHONHASHSEED", a, b))
    # through a worker pool (fork), two workers
    ctx = multiprocessing.get_context("fork")
    with cf.ProcessPoolExecutor(max_workers=2, mp_context=ctx) as ex:
        fourth = dict(zip(ids, ex.map(_pool_job, [(c, tier, base_seed, n) for c in ids], timeout=1200)))
    for c in ids:
        for a, b in zip(first[c], fourth[c]):
            if a != b:
                bad.append((c, "forked pool worker", a, b))
    total = sum(len(v) for v in first.values())
    if bad:
        print(f"HARNESS-ERROR: determinism self-test: {len(bad)} divergence(s); first:")
        for b in bad[:5]:
            print("  ", b)
        return 2
    print(f"determinism self-test: {total} runs over {len(ids)} checks x 4 executions each "
          f"(twice in-process, fresh interpreter under PYTHONHASHSEED=98765, forked 2-worker pool): all digests identical")
    return 0
